#!/usr/bin/env python3
"""Round 6: builds /verif/seeded/<id>/ from the confirmed sixth-round changes; detection records are taken from
the two passes run with tools/try_mutant_copy.sh on scratch copies: before (/verif at commit b0950a1) and after."""
import json, os, shutil, glob, re
OUT='/verif/seeded'
props={json.loads(l)['id']:json.loads(l) for l in open('/verif/properties.jsonl')}
def load(p):
    d={}
    for l in open(p):
        m=re.match(r'(C\d\d-r6m\d) (\w+)',l)
        if m: d[m.group(1)]=(m.group(2)=='DETECTED', l.strip()[len(m.group(1))+1:][:400])
    return d
before=load('/tmp/confirm6/before.log'); after=dict(before); after.update(load('/tmp/confirm6/after.log'))
for f in sorted(glob.glob('/tmp/confirm6/C*.json')):
    d=json.load(open(f)); mid=d['id']
    if not d.get('confirmed'): continue
    p,m=mid.split('-r6')
    src='/tmp/wt6/out/%s/%s'%(p,m)
    dst=os.path.join(OUT,mid)
    if os.path.exists(dst): shutil.rmtree(dst)
    shutil.copytree(src,dst,ignore=shutil.ignore_patterns('*.log','scratch','.gocache'))
    meta={'id':mid,'property':p,'property_title':props[p]['title'],
      'origin':'fresh sub-agent given only the property text and a scratch worktree of the fixed tree (round 6, twelve properties, three changes per agent)',
      'patch_applies_to':'/repo HEAD %s'%d['repo_head'],
      'needs_to_manifest':'see notes.md (written by the sub-agent)',
      'confirmed_by_me':{'how':'tools/confirm_mutant.py in a scratch worktree of /repo HEAD: demo passes on the clean tree; with the patch: go build ok, pinned suite (go test -vet=off -count=1 ./...) passes, demo fails',
         'demo_cmd':d.get('demo_cmd'),'clean_demo_rc':d['clean_demo_rc'],'patched_build_rc':d['patched_build_rc'],'patched_suite_rc':d['patched_suite_rc'],'patched_demo_rc':d['patched_demo_rc'],
         'patched_demo_tail':d.get('patched_demo_tail','')[-400:]},
      'caught_before_round6_strengthening':{'detected':before.get(mid,(None,''))[0],'summary':before.get(mid,(None,''))[1]},
      'checks_run_against_it':{p:{'detected':after.get(mid,(None,''))[0],'summary':after.get(mid,(None,''))[1]}}}
    json.dump(meta,open(os.path.join(dst,'meta.json'),'w'),indent=1)
print(len(glob.glob(OUT+'/C*-r6m*')))
