#!/bin/bash
# usage: tools/try_mutant.sh <patch.diff> <Cxx> [Cyy ...]   — applies the patch to /repo, runs the
# quick checks, and always restores /repo. Prints DETECTED/MISSED per check.
set -u
patch="$1"; shift
cd /repo || exit 2
if ! git diff --quiet; then echo "/repo is dirty; refusing"; exit 2; fi
head0=$(git rev-parse HEAD)
trap 'cd /repo && git reset -q --hard $head0 && git clean -fdq -- . >/dev/null 2>&1' EXIT
if ! git apply "$patch" 2>/tmp/apply.err; then
  if ! git apply --3way "$patch" 2>>/tmp/apply.err || ! git diff --quiet --diff-filter=U; then echo "APPLY-FAILED $patch"; tail -3 /tmp/apply.err; exit 3; fi
fi
git reset -q
for c in "$@"; do
  out=$(cd ${VERIF_DIR:-/verif} && ${TIER:+VERIF_TIER=$TIER} ./check.sh $c 2>&1); rc=$?
  if [ $rc -eq 1 ] && echo "$out" | grep -q "^VIOLATION property=$c"; then
    echo "DETECTED $c by $(basename $(dirname $patch))/$(basename $patch): $(echo "$out" | grep -A1 '^VIOLATION' | grep clause | sort | uniq -c | sort -rn | head -3 | tr '\n' ' ')"
  else
    echo "MISSED $c rc=$rc: $(echo "$out" | tail -2 | tr '\n' ' ')"
  fi
done
