#!/usr/bin/env python3
"""usage: redetect.py <seeded id> <Cxx> [Cyy…] — re-runs checks against a seeded change and updates its meta.json."""
import json, subprocess, sys, os
mid=sys.argv[1]; d='/verif/seeded/'+mid
meta=json.load(open(d+'/meta.json'))
for chk in sys.argv[2:]:
    r=subprocess.run(['/verif/tools/try_mutant.sh',d+'/patch.diff',chk],capture_output=True,text=True)
    line=(r.stdout.strip().splitlines() or ['?'])[-1]
    meta.setdefault('checks_run_against_it',{})[chk]={'detected':line.startswith('DETECTED'),'summary':line[:700]}
    print(mid,chk,line[:160],flush=True)
json.dump(meta,open(d+'/meta.json','w'),indent=1)
