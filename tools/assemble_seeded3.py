#!/usr/bin/env python3
"""Round 3: builds /verif/seeded/<id>/ (patch.diff, demo files, notes.md, meta.json) from the confirmed
second-round changes (made by fresh sub-agents against the FIXED tree) and records which registered
check detects each (runs tools/try_mutant.sh)."""
import json, os, shutil, subprocess, glob
OUT='/verif/seeded'
props={json.loads(l)['id']:json.loads(l) for l in open('/verif/properties.jsonl')}
missed_first={
 'C20-r2m1':'missed at first: the fail cells read only one kind before the failure; prior reads of several kinds added (ioworker fail op)',
 'C13-r2m1':'missed at first: struct names/orders outside the struct family added',
 'C10-r2m1':'missed at first: same-line appends with several separators added',
 'C15-r2m1':'missed at first: more layouts and a registry robust against missing constants',
 'C04-r2m1':'missed at first: field-less v1 variant added',
 'C09-r2m1':'missed at first: inputs with deprecated fields present added',
 'C03-r2m2':'missed at first: deprecated-present inputs / extremes family',
 'C19-r2m1':'missed at first: symlinked targets and long-line inputs added',
 'C14-r2m1':'missed at first: trees from the extremes family and random schemas added',
 'C12-r2m2':'missed at first: separate-mode import sets added to C12 (lib + app packages under every option row)',
 'C06-r2m1':'missed at first: separate-mode import sets added to the codec corpus',
 'C17-r2m1':'missed at first: comment-placement family (block/line comments at token boundaries) added to C16/C17',
}
for f in sorted(glob.glob('/tmp/confirm3/C*.json')):
    d=json.load(open(f)); mid=d['id']
    if not d.get('confirmed'): continue
    p,m=mid.split('-r3')
    src='/tmp/wt3/out/%s/%s'%(p,m)
    dst=os.path.join(OUT,mid); os.makedirs(dst,exist_ok=True)
    for fn in os.listdir(src):
        if fn.endswith('.log'): continue
        shutil.copy(os.path.join(src,fn),os.path.join(dst,fn))
    r=subprocess.run(['/verif/tools/try_mutant.sh',os.path.join(dst,'patch.diff'),p],capture_output=True,text=True)
    line=(r.stdout.strip().splitlines() or ['?'])[-1]
    det={p:{'detected':line.startswith('DETECTED'),'summary':line[:700]}}
    print(mid,line[:140],flush=True)
    meta={'id':mid,'property':p,'property_title':props[p]['title'],
      'origin':'fresh sub-agent given only the property text and a scratch worktree of the fixed tree (round 3)',
      'patch_applies_to':'/repo HEAD %s'%d['repo_head'],
      'needs_to_manifest':'see notes.md (written by the sub-agent)',
      'confirmed_by_me':{'how':'tools/confirm_mutant.py in a scratch worktree of /repo HEAD: demo passes on the clean tree; with the patch: go build ok, pinned suite (go test -vet=off -count=1 ./...) passes, demo fails',
         'demo_cmd':d.get('demo_cmd'),'clean_demo_rc':d['clean_demo_rc'],'patched_build_rc':d['patched_build_rc'],'patched_suite_rc':d['patched_suite_rc'],'patched_demo_rc':d['patched_demo_rc'],
         'patched_demo_tail':d.get('patched_demo_tail','')[-400:]},
      'checks_run_against_it':det}
    if mid in missed_first: meta['history']=missed_first[mid]
    json.dump(meta,open(os.path.join(dst,'meta.json'),'w'),indent=1)
