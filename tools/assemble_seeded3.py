#!/usr/bin/env python3
"""Round 3: builds /verif/seeded/<id>/ from the confirmed third-round changes (fresh sub-agents, three
changes each, against the fixed tree) and records (a) whether the check as it stood BEFORE the round-3
strengthening caught it (/tmp/confirm3/before.log) and (b) what the current check says (tools/try_mutant.sh)."""
import json, os, shutil, subprocess, glob, re
OUT='/verif/seeded'
props={json.loads(l)['id']:json.loads(l) for l in open('/verif/properties.jsonl')}
before={}
for l in open('/tmp/confirm3/before.log'):
    m=re.match(r'(C\d\d-r3m\d) (\w+)',l)
    if m: before[m.group(1)]=(m.group(2)=='DETECTED', l.strip()[len(m.group(1))+1:][:300])
extra={'C06-r3m4':['C07']}
skip={'C10-r3m3':'neutralised by fix 2958cc2 (the token reader now remembers reader failures): its demonstration passes with the change applied'}
for f in sorted(glob.glob('/tmp/confirm3/C*.json')):
    d=json.load(open(f)); mid=d['id']
    if mid in skip or not d.get('confirmed'): continue
    p,m=mid.split('-r3')
    src='/tmp/wt3/out/%s/%s'%(p,m)
    dst=os.path.join(OUT,mid); os.makedirs(dst,exist_ok=True)
    for fn in os.listdir(src):
        if fn.endswith('.log') or os.path.isdir(os.path.join(src,fn)): continue
        shutil.copy(os.path.join(src,fn),os.path.join(dst,fn))
    ported='/verif/seeded/ported/%s.diff'%mid
    if os.path.exists(ported):
        shutil.copy(os.path.join(src,'patch.diff'),os.path.join(dst,'patch.as-written-by-the-sub-agent.diff'))
        shutil.copy(ported,os.path.join(dst,'patch.diff'))
    det={}
    for chk in [p]+extra.get(mid,[]):
        r=subprocess.run(['/verif/tools/try_mutant.sh',os.path.join(dst,'patch.diff'),chk],capture_output=True,text=True)
        line=(r.stdout.strip().splitlines() or ['?'])[-1]
        det[chk]={'detected':line.startswith('DETECTED'),'summary':line[:700]}
        print(mid,chk,line[:140],flush=True)
    meta={'id':mid,'property':p,'property_title':props[p]['title'],
      'origin':'fresh sub-agent given only the property text and a scratch worktree of the fixed tree (round 3, three changes per agent)',
      'patch_applies_to':'/repo HEAD at assembly (confirmed at %s)'%d['repo_head'],
      'needs_to_manifest':'see notes.md (written by the sub-agent)',
      'confirmed_by_me':{'how':'tools/confirm_mutant.py in a scratch worktree of /repo HEAD: demo passes on the clean tree; with the patch: go build ok, pinned suite (go test -vet=off -count=1 ./...) passes, demo fails',
         'demo_cmd':d.get('demo_cmd'),'clean_demo_rc':d['clean_demo_rc'],'patched_build_rc':d['patched_build_rc'],'patched_suite_rc':d['patched_suite_rc'],'patched_demo_rc':d['patched_demo_rc'],
         'patched_demo_tail':d.get('patched_demo_tail','')[-400:]},
      'caught_before_round3_strengthening':{'detected':before.get(mid,(None,''))[0],'summary':before.get(mid,(None,''))[1]},
      'checks_run_against_it':det}
    json.dump(meta,open(os.path.join(dst,'meta.json'),'w'),indent=1)
