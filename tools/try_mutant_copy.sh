#!/bin/bash
# usage: tools/try_mutant_copy.sh <abs patch.diff> <Cxx> [Cyy ...] — like try_mutant.sh, but the patch is
# applied to a scratch worktree of /repo's HEAD and the checks run against that copy (REPO=<copy>), so /repo
# itself is never touched (background sweeps keep running undisturbed; several of these can run at once).
# Triage only: registered checks and committed evidence always come from /repo itself.
set -u
patch="$1"; shift
wt=$(mktemp -d /tmp/mutrepo.XXXXXX); rmdir "$wt"
git -C /repo worktree add -q --detach "$wt" HEAD || exit 2
trap 'git -C /repo worktree remove --force "$wt" >/dev/null 2>&1; rm -rf "$wt"' EXIT
cd "$wt" || exit 2
if ! git apply "$patch" 2>/tmp/apply.$$.err; then
  if ! git apply --3way "$patch" 2>>/tmp/apply.$$.err || ! git diff --quiet --diff-filter=U; then echo "APPLY-FAILED $patch"; tail -3 /tmp/apply.$$.err; exit 3; fi
fi
rm -f /tmp/apply.$$.err
evdir=$(mktemp -d /tmp/mutev.XXXXXX)
for c in "$@"; do
  # evidence and replays of triage runs must not overwrite /verif's: run from a throw-away VERIF_ROOT view
  out=$(cd ${VERIF_DIR:-/verif} && REPO="$wt" VERIF_EVIDENCE_DIR="$evdir" ${TIER:+VERIF_TIER=$TIER} ./check.sh $c 2>&1); rc=$?
  if [ $rc -eq 1 ] && echo "$out" | grep -q "^VIOLATION property=$c"; then
    echo "DETECTED $c by $(basename $(dirname $patch))/$(basename $patch): $(echo "$out" | grep -A1 '^VIOLATION' | grep clause | sort | uniq -c | sort -rn | head -3 | tr '\n' ' ')"
  else
    echo "MISSED $c rc=$rc: $(echo "$out" | tail -2 | tr '\n' ' ')"
  fi
done
rm -rf "$evdir"
