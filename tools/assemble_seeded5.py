#!/usr/bin/env python3
"""Round 5: builds /verif/seeded/<id>/ from the confirmed fifth-round changes; detection records are taken from
the two passes run with tools/try_mutant_copy.sh on scratch copies: before (/verif at commit b0950a1) and after."""
import json, os, shutil, glob, re
OUT='/verif/seeded'
props={json.loads(l)['id']:json.loads(l) for l in open('/verif/properties.jsonl')}
def load(p):
    d={}
    for l in open(p):
        m=re.match(r'(C\d\d-r5m\d) (\w+)',l)
        if m: d[m.group(1)]=(m.group(2)=='DETECTED', l.strip()[len(m.group(1))+1:][:400])
    return d
before=load('/tmp/confirm5/before.log'); after=load('/tmp/confirm5/after_full.log')
for f in sorted(glob.glob('/tmp/confirm5/C*.json')):
    d=json.load(open(f)); mid=d['id']
    if not d.get('confirmed'): continue
    p,m=mid.split('-r5')
    src='/tmp/wt5/out/%s/%s'%(p,m)
    dst=os.path.join(OUT,mid)
    if os.path.exists(dst): shutil.rmtree(dst)
    shutil.copytree(src,dst,ignore=shutil.ignore_patterns('*.log','scratch'))
    meta={'id':mid,'property':p,'property_title':props[p]['title'],
      'origin':'fresh sub-agent given only the property text and a scratch worktree of the fixed tree (round 5, three changes per agent, one of them two cooperating edits)',
      'patch_applies_to':'/repo HEAD %s'%d['repo_head'],
      'needs_to_manifest':'see notes.md (written by the sub-agent)',
      'confirmed_by_me':{'how':'tools/confirm_mutant.py in a scratch worktree of /repo HEAD: demo passes on the clean tree; with the patch: go build ok, pinned suite (go test -vet=off -count=1 ./...) passes, demo fails',
         'demo_cmd':d.get('demo_cmd'),'clean_demo_rc':d['clean_demo_rc'],'patched_build_rc':d['patched_build_rc'],'patched_suite_rc':d['patched_suite_rc'],'patched_demo_rc':d['patched_demo_rc'],
         'patched_demo_tail':d.get('patched_demo_tail','')[-400:]},
      'caught_before_round5_strengthening':{'detected':before.get(mid,(None,''))[0],'summary':before.get(mid,(None,''))[1]},
      'checks_run_against_it':{p:{'detected':after.get(mid,(None,''))[0],'summary':after.get(mid,(None,''))[1]}}}
    if mid=='C15-r5m3': meta['note']='NOT caught, by design: int32 [flags] expressions evaluated in 64 bits differ only when an intermediate result leaves the base type (see C15-r3m2, C11-r4m3 and DESIGN sections 8, 13, 14)'
    json.dump(meta,open(os.path.join(dst,'meta.json'),'w'),indent=1)
print(len(glob.glob(OUT+'/C*-r5m*')))
