#!/usr/bin/env python3
"""Builds /verif/seeded/<id>/ (patch.diff, demo, notes.md, meta.json) from the confirmed first-round changes
and records which registered check detects each (runs tools/try_mutant.sh)."""
import json, os, re, shutil, subprocess, sys, glob
OUT='/verif/seeded'
props={json.loads(l)['id']:json.loads(l) for l in open('/verif/properties.jsonl')}
extra_checks={'C05-m1':['C03','C20'],'C06-m2':['C20'],'C15-m1':['C11'],'C09-m2':['C01'],'C03-m2':['C05','C20'],'C20-m2':['C03','C05'],'C07-m1':['C20'],'C04-m1':['C05']}
for f in sorted(glob.glob('/tmp/confirm/C*.json')):
    d=json.load(open(f)); mid=d['id']
    if not d.get('confirmed'): continue
    p,m=mid.split('-')
    src='/tmp/wt/out/%s/%s'%(p,m)
    dst=os.path.join(OUT,mid); os.makedirs(dst,exist_ok=True)
    shutil.copy(d['patch'],os.path.join(dst,'patch.diff'))
    for fn in os.listdir(src):
        if fn=='patch.diff':
            if os.path.abspath(d['patch'])!=os.path.join(src,fn): shutil.copy(os.path.join(src,fn),os.path.join(dst,'patch.original-against-pinned-tree.diff'))
            continue
        if fn.endswith('.log'): continue
        shutil.copy(os.path.join(src,fn),os.path.join(dst,fn))
    notes=open(os.path.join(src,'notes.md')).read() if os.path.exists(os.path.join(src,'notes.md')) else ''
    det={}
    for chk in [p]+extra_checks.get(mid,[]):
        r=subprocess.run(['/verif/tools/try_mutant.sh',os.path.join(dst,'patch.diff'),chk],capture_output=True,text=True)
        line=(r.stdout.strip().splitlines() or ['?'])[-1]
        det[chk]={'detected':line.startswith('DETECTED'),'summary':line[:700]}
        print(mid,chk,line[:120],flush=True)
    meta={'id':mid,'property':p,'property_title':props[p]['title'],
      'origin':'fresh sub-agent given only the property text and a scratch worktree of the pinned tree (round 1)',
      'patch_applies_to':'/repo HEAD %s (%s)'%(d['repo_head'],'rebased/ported from the sub-agent patch against the pinned tree' if 'ported' in d['patch'] else 'sub-agent patch applies unchanged'),
      'needs_to_manifest':'see notes.md (written by the sub-agent)',
      'confirmed_by_me':{'how':'tools/confirm_mutant.py in a scratch worktree of /repo HEAD: demo passes on the clean tree; with the patch: go build ok, pinned suite (go test -vet=off -count=1 ./...) passes, demo fails',
         'demo_cmd':d.get('demo_cmd'),'clean_demo_rc':d['clean_demo_rc'],'patched_build_rc':d['patched_build_rc'],'patched_suite_rc':d['patched_suite_rc'],'patched_demo_rc':d['patched_demo_rc'],
         'patched_demo_tail':d.get('patched_demo_tail','')[-400:]},
      'checks_run_against_it':det}
    json.dump(meta,open(os.path.join(dst,'meta.json'),'w'),indent=1)
