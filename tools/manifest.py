#!/usr/bin/env python3
"""Regenerates /verif/MANIFEST.json from the table below (kept in one place so that the
claimed set, levels and not_applicable stay consistent)."""
import json, os
ROOT = os.path.dirname(os.path.dirname(os.path.abspath(__file__)))
props = [json.loads(l) for l in open(os.path.join(ROOT, 'properties.jsonl'))]

# id -> (category, level text, level note, technique)
CHECKS = {
 "C20": ("exploration",
   "iohelp primitives executed in child processes (plain and -asan builds) against an encoding/binary reference: exhaustive over all 8/16-bit patterns, boundary+seeded random for wider types, every buffer length x count for the string readers, every short buffer length for fixed-width slice accessors, long strings/byte arrays on streams followed by further values, every (k fresh bytes, error kind) failure point of every stream reader with a non-interference oracle",
   "held on the executions produced; trusted: encoding/binary as layout reference, Go -asan red zones after exact-size heap buffers; wider-than-16-bit types are sampled, not enumerated",
   "runtime monitoring: differential round-trip oracle + failure-injection non-interference monitor + AddressSanitizer build"),
 "C10": ("exploration",
   "ReadFile executed in child processes behind a metering reader on ~4.4e5 (quick) / 2.8e6 (thorough) inputs: all token strings of length <=3 over a 60-spelling alphabet (incl. malformed spellings), all [flags] expression strings of <=4 tokens, every prefix / byte deletion / hostile insertion+replacement of corpus schemas, and every reader failure offset x chunking x error kind x {persistent, transient-then-EOF, transient-then-resume} x {failing call returns no data, failing call returns the last bytes with the error}; oracle = no panic/runaway/CPU-budget, fault => error, success => reader drained and an appended definition is not lost",
   "held on the inputs explored; CPU budget (20 s) stands in for 'terminates'; completeness is tested with one fixed appended definition; thorough adds length-4 token strings and all insertion offsets",
   "runtime monitoring: boundary monitor (metering reader, panic/CPU/runaway meters) + metamorphic completeness oracle + exhaustive reader-fault injection"),
 "C11": ("exploration",
   "schemas generated as ASTs (all ordered pairs/selected triples of 19 definition variants, one minimal schema per construct, 500/5000 seeded random schemas over every construct) are printed under 9 layouts and parsed by the real ReadFile in child processes; the returned File is compared field by field with the harness's independent expected-File model, so both content and layout independence are decided per (schema, layout)",
   "held on the (schema, layout) pairs explored; the model follows the comment-attachment and layout conventions of DESIGN Appendix A; [flags] expressions restricted to precedence-independent ones",
   "runtime monitoring: model-based oracle (independent expected-File model) over generated ASTs x layouts"),
 "C16": ("exploration",
   "for every accepted text of the C11 corpus (AST families x 9 layouts), of the comment-placement family (comments and stray separators inserted at token boundaries, ~2e4 accepted per quick run) and of the near-language family (23 text-level perturbations of the printed corpus - doubled/swapped line ends, line breaks after keywords, attributes and arrows, members and attributes joined to the previous line ...; accepted or not is decided by the real ReadFile) the real Format output is parsed by the real ReadFile and compared with the original File on everything except comments/tags; the original File must itself equal the independent model, so the comparison cannot be vacuous",
   "held on the texts explored; inputs restricted to what ReadFile accepts; comment attachment deliberately not compared",
   "runtime monitoring: differential oracle through the real parser + model check"),
 "C17": ("exploration",
   "for every accepted text of the C11 corpus, of the comment-placement family (block/line/long comments, stray separators at token boundaries) and of the near-language family (23 text-level perturbations of the printed corpus) whose first Format succeeds, Format(Format(x)) is compared with Format(x) byte for byte",
   "held on the texts explored (AST families x 9 layouts, seeded random schemas)",
   "runtime monitoring: idempotence oracle over generated inputs"),
 "C13": ("exploration",
   "every single semantic-error injection of the statement's classes, at every applicable site and under two layouts, into ~560 base schemas that the real ReadFile+Generate first accept (construct/ordering families + seeded random), executed in child processes; positive recursion cases, struct chains/cycles up to 64 definitions (also closed by deprecated struct fields) under a CPU budget",
   "held on the (class, site, base) triples explored; out-of-range consts and self-containment through containers are deliberately not demanded (DESIGN section 8); one class x site is a recorded known finding",
   "runtime monitoring: mutation-injection workload with accept/reject oracle, CPU-budget monitor for the recursion analysis"),
 "C12": ("exploration",
   "the full systematic matrix (30 element kinds x 11 type shapes x 7 contexts = 2310 single-cell schemas) under the default options plus pairwise-covering option rows, seeded random schemas, the construct family, separate-mode import sets (library + six application packages per option row) and a naming-hazard family go through the real ReadFile+Generate in child processes; every accepted output is compiled by the real Go compiler against /repo's bebop and iohelp packages (Record assertions included)",
   "held on the (schema, option set) pairs explored; single shapes x contexts are complete, combinations of shapes are sampled; 13 naming hazards are recorded known findings",
   "runtime monitoring: compile-as-oracle over a systematic schema matrix x generator options"),
 "C01": ("exploration",
   "the codec corpus (every cell of the 30 x 11 x 7 matrix as a record with sentinel fields, plus the extremes family, separate-mode import sets and seeded random schemas, generated with GenerateUnsafeMethods by the real generator and compiled) is driven in child processes: 24/200 boundary-driven values (+ 6 with shifted variants) per record type x 3 encoders x 6 decoder entry points (the two stream entry points also through readers delivering 1 byte / 7,1,3 bytes per call); the decoded value is compared with the encoded one by the harness's own normalising comparer",
   "held on the (type, value, encoder, decoder) tuples executed; a defect made symmetrically by encoder and decoder is out of reach here (see C03); values avoid the Unix epoch instant and -0 map keys (NaN keys are included)",
   "runtime monitoring: round-trip oracle over a systematic type-shape matrix with a reflection bridge into generated code"),
 "C02": ("exploration",
   "same corpus and values as C01, plus union values with two members set; MarshalBebop, EncodeBebop (metering writer) and MarshalBebopTo into Size()+9-byte buffers with four different pre-fills; byte agreement (after reference decoding when a map has >= 2 entries), exact Size(), returned n, untouched pad bytes (canary) and independence from the pre-fill are checked per value",
   "held on the values executed; the canary detects writes in the 9 bytes after Size() (a wilder overrun is the -asan builds' job in C20/C06)",
   "runtime monitoring: differential oracle between the three encoders + dirty-buffer canary monitor"),
 "C03": ("exploration",
   "same corpus and values; every encoder's output is compared byte for byte with an independent reference encoder written from the wire-format statement (encoding/binary), and every decoder is fed the reference encoding under every permutation of map entries (all n! for n <= 4) and must return the value",
   "held on the values executed; the reference codec encodes the repository's date convention (ticks since the Unix epoch), not .NET ticks",
   "runtime monitoring: differential oracle against an independent reference codec with per-byte role map"),
 "C15": ("exploration",
   "schemas of constants over every const type x literal form, enums at the limits of all base types, [flags] enums with seeded expression trees to depth 4 and opcodes in all spellings are generated under three option sets, compiled, and every generated constant's value and Go type is read back at run time through a registry inside the generated package and compared with the harness's own evaluation of the literal",
   "held on the constants generated (984 quick / ~5000 thorough per run); flag expressions limited to precedence-independent ones; float literals with negative exponents are rejected by the tokenizer and hence outside 'accepted schemas'",
   "runtime monitoring: compile-and-run readback of generated constants against an independent literal evaluator"),
 "C06": ("fault_enumeration",
   "for every record type of the codec corpus and several boundary-driven values chosen by wire-feature coverage (plus 20 000-element containers for the allocation clause), EVERY cut point 0 <= k < len is executed against UnmarshalBebop (exactly sized buffer) and DecodeBebop (metering reader; EOF, io.ErrUnexpectedEOF and generic error endings) in driver children; per cut: error returned, no panic / process death / runaway / CPU budget, exact allocation within 64KiB + 1024*len",
   "exhaustive over cut points per encoding, sampled over values and schemas (matrix complete for single shapes x contexts); 2.8e6 cuts per quick run",
   "runtime monitoring: exhaustive truncation fault enumeration with boundary monitors (panic, runaway, CPU, allocation meters)"),
 "C07": ("exploration",
   "valid encodings of every record type of the codec corpus are corrupted structure-aware using the reference codec's per-byte role map (all length/count prefixes x hostile values, all tag bytes x other values, payload flips, splices, random tails) and joined by all-00/all-FF strings of every length <= 16 and seeded random strings; ~2.6e6 inputs per quick run go to UnmarshalBebop and DecodeBebop in driver children under RLIMIT_AS; oracle: normal return, no panic / death / runaway / CPU > 2 s, exact allocation <= 64KiB + 1024*len",
   "held on the inputs explored; 'unbounded' is operationalised as more than 64KiB + 1024 bytes per input byte; one class (arrays of zero-wire-size elements) is a recorded known finding",
   "runtime monitoring: structure-aware corruption workload with boundary monitors (panic, OOM under RLIMIT_AS, runaway reader, CPU budget, exact allocation meter)"),
 "C05": ("exploration",
   "per generated package of the codec corpus, streams of 2-8 back-to-back records of mixed types (real EncodeBebop output) are decoded from one metering reader under ~10 fixed fragmentation schedules plus a chunk boundary at every wire-role boundary of the first record; after every record the reader position, the decoded value and Size() are checked, and the end of stream after the last one",
   "held on ~2e4 (stream, schedule) pairs per quick run; schedules are a finite family, not all interleavings; every (type, value) of the pool occurs in at least one stream",
   "runtime monitoring: history oracle (sequence equality + byte conservation per record) over read-fragmentation schedules with a metering reader"),
 "C08": ("fault_enumeration",
   "per record type of the codec corpus and several values: EVERY Write call index of EncodeBebop fails (persistent generic error, io.ErrShortWrite with partial write, io.EOF, and a fail-once writer) and EVERY byte offset of DecodeBebop's input is followed by a failing reader (generic, timeout-like, io.ErrUnexpectedEOF); per fault point: non-nil error, no panic / death / runaway / CPU budget, bounded allocation; fault-free EncodeBebop == MarshalBebop",
   "exhaustive over fault points per value (2.5e6 per quick run), sampled over values and schemas",
   "runtime monitoring: exhaustive I/O fault injection through metering reader/writer wrappers"),
 "C04": ("exploration",
   "8 schema-version pairs (added fields of several kinds, un-deprecated fields, both, field-less v1) x 16 nesting contexts of the evolved message; both versions are generated and compiled, v2-encoded values (added fields present/absent) are decoded by v1's byte and stream decoders (also chunked); decoded value must equal the harness's restriction of the v2 value to v1's fields, siblings intact, stream position exact",
   "held on ~7500 (pair, context, value, decoder) tuples per quick run; evolution limited to the two operations the statement names; two contexts (struct containing the evolved message, nested again) are recorded known findings on the byte path",
   "runtime monitoring: cross-version differential oracle with an independent restriction model"),
 "C09": ("exploration",
   "a third of the matrix cells (half, thorough) + random schemas + a tagged schema generated under a pairwise covering array of the 5 options (all 32, thorough); per (type, option set): all encoders must emit the independent reference bytes - hence identical bytes under every option set - and every decoder entry point, including the Must variants where generated, must map the reference encoding and its map permutations to the value; thorough adds an -asan pass with exactly sized buffers (shared-memory strings)",
   "held on ~6e4 (type, option set, value) triples per quick run; pairwise coverage of options in quick, full 2^5 in thorough",
   "runtime monitoring: differential oracle against the reference codec across generator configurations (+ AddressSanitizer build in thorough)"),
 "C14": ("exploration",
   "on-disk schema trees (single large file; imports in combined mode; imports over distinct go_packages in separate mode; the extremes family; seeded random schemas; a cold tree of malformed texts) are parsed once in a -race build; ReadFile, Validate, Format and Generate under 6 option sets run 5x sequentially and from 8 goroutines x 20 repetitions on the one shared File, in 3 fresh processes that walk the option sets in different rotations and directions (records kept per goroutine, one process per tree barrier-aligned); every slice of the File carries four spare slots that must stay untouched; outputs must be byte-identical within and across processes, the File deep-unchanged, and the race logs empty; overlapping call pairs are counted (9e4 per quick run)",
   "held on the schedules the Go scheduler produced; the race detector is happens-before based, so it reports races between accesses that were executed regardless of timing, not races on paths the workload never ran",
   "runtime monitoring: Go race detector + repeatability/purity oracle over sequential, concurrent and cross-process repetitions"),
 "C18": ("exploration",
   "import graphs realised as file trees: exhaustively all 512 digraphs with loops on 3 files in three mode/package configurations and all 4096 loop-free digraphs on 4 files in separate mode (thorough: all 65536 on 4 files with loops, random graphs to 12 files); the real Generate runs in child processes under a CPU budget; separate mode is compared with the harness's own DFS cycle oracle, combined mode declaration-by-declaration with generation from the harness's inlined schema plus codec oracles on a sample; dedicated trees check per-file path resolution and single inlining",
   "exhaustive for n<=3 (and loop-free n=4 in separate mode), sampled beyond; cycle errors recognised by their text",
   "runtime monitoring: exhaustive small-graph enumeration with an independent digraph oracle and a differential inlining oracle"),
 "C19": ("fault_enumeration",
   "the real bebopc-go and bebopfmt binaries run in scratch directories with a pre-existing sentinel target: input cells (valid incl. commented, const-dense and one-line schemas under 9 layouts, symlinked targets, lines up to 200 kB, every rejected file of testdata/invalid, validation errors, missing imports, nonexistent, directory, several files formatted twice, argument lists with a bad file in every position, three files in one run with an unwritable one in every position or the k-th system call failing, near-language texts classed at run time by the real ReadFile, failing runs without a pre-existing output) x fault cells injected from outside with strace: EVERY k-th openat/write/rename*/close/fsync/... call of a fault-free run fails, and separately the process is SIGKILLed at it, plus RLIMIT_FSIZE; oracle on exit status, printed messages and the target's bytes; successful bebopfmt -w output is re-parsed by the real ReadFile and compared with the original schema",
   "exhaustive over the system calls a fault-free run makes (per-thread counting; GOMAXPROCS=1), sampled over inputs; inconclusive if ptrace is unavailable",
   "runtime monitoring: syscall-level fault and crash-point injection (strace) around the real binaries with a file-state oracle"),
}
DESIGN = {i: "DESIGN.md section 4, %s" % i for i in CHECKS}

claimed = sorted(CHECKS)
m = {
 "version": 1,
 "setup_cmd": "./setup.sh",
 "hooks": {"guard": "verif",
           "enable": "go build -tags verif (the harness passes the tag uniformly; no hook files exist in /repo)",
           "baseline_off_cmd": "cd /repo && GOFLAGS=-mod=mod GOPROXY=off GOSUMDB=off GOTOOLCHAIN=local go test -vet=off -count=1 -timeout 25m ./...",
           "source_commits": [], "add_only": True},
 "engines": [{"name": "vcheck", "path": "check.sh", "serves_properties": claimed,
              "kind_free_text": "runtime monitoring: controller + child workers linking /repo, reference models, fault injection, sanitizer builds"}],
 "checks": [],
 "not_applicable": [],
 "notes": "see DESIGN.md; known_findings.json lists recorded findings and fixed defects",
}
for p in props:
    i = p["id"]
    if i in CHECKS:
        cat, text, note, tech = CHECKS[i]
        m["checks"].append({
            "property_id": i, "quick_cmd": "./check.sh %s" % i, "thorough_cmd": "VERIF_TIER=thorough ./check.sh %s" % i,
            "evidence_file": "/verif/evidence/%s.json" % i, "replay_cmd_template": "./check.sh %s --replay {path}" % i,
            "engine": "vcheck", "level_claimed": {"category": cat, "text": text, "design_ref": DESIGN[i]},
            "level_note": note, "technique": tech})
    else:
        m["not_applicable"].append({"property_id": i, "reason": "check not built yet in this round (work in progress; the technique applies)"})
json.dump(m, open(os.path.join(ROOT, 'MANIFEST.json'), 'w'), indent=1)
print("claimed:", claimed)
