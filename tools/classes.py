#!/usr/bin/env python3
"""usage: classes.py Cxx key1,key2,... — aggregates unlisted violation classes of the last run by the chosen locus keys"""
import json,sys,collections
e=json.load(open('/verif/evidence/%s.json'%sys.argv[1]));c=e['coverage']
keys=sys.argv[2].split(',') if len(sys.argv)>2 else []
print('evals',c['evaluations'],'distinct',c['distinct_nontrivial'],'hist',c['outcome_histogram'],'incon',c.get('inconclusive_reasons'))
print('by clause',c.get('unlisted_violations_by_clause'))
agg=collections.Counter()
for k,v in c.get('unlisted_violation_classes',{}).items():
    cl,loc=k.split(' {',1); loc=json.loads('{'+loc); agg[(cl,)+tuple(loc.get(x) for x in keys)]+=v
for k,v in agg.most_common(int(sys.argv[3]) if len(sys.argv)>3 else 60): print(v,k)
