#!/usr/bin/env python3
"""Confirms a seeded change in a scratch worktree of /repo's HEAD:
   clean tree: demo passes; patched tree: builds, pinned suite passes, demo fails.
   usage: confirm_mutant.py <id> <patch.diff> <demo file or dir> [--out result.json]
   Writes a JSON verdict to stdout. The scratch worktree is removed afterwards."""
import json, os, re, shutil, subprocess, sys, tempfile

ENV = dict(os.environ, GOFLAGS="-mod=mod", GOPROXY="off", GOSUMDB="off", GOTOOLCHAIN="local")

def sh(cmd, cwd, timeout=1500):
    try:
        p = subprocess.run(cmd, shell=True, cwd=cwd, env=ENV, capture_output=True, text=True, errors="replace", timeout=timeout)
        return p.returncode, (p.stdout + p.stderr)[-3000:]
    except subprocess.TimeoutExpired as e:
        return 124, "timeout"

def main():
    mid, patch, demo = sys.argv[1:4]
    wt = tempfile.mkdtemp(prefix="wtc-" + mid + "-", dir="/tmp")
    os.rmdir(wt)
    res = {"id": mid, "patch": patch, "demo": demo, "repo_head": subprocess.check_output("git -C /repo rev-parse --short HEAD", shell=True, text=True).strip()}
    try:
        rc, out = sh(f"git -C /repo worktree add -q --detach {wt} HEAD", "/")
        if rc != 0:
            res["error"] = "worktree: " + out
            return res
        # place the demo
        placed = []
        if os.path.isdir(demo) or demo.endswith(".sh"):
            ddir = demo if os.path.isdir(demo) else os.path.dirname(demo)
            run_demo = f"WT={wt} bash {os.path.join(ddir, 'demo.sh')}"
            # demo.sh scripts refer to the author's worktree path; point them at ours
            script = open(os.path.join(ddir, "demo.sh")).read()
            m = re.search(r"/tmp/wt\d?/C\d\d", script)
            tmpd = tempfile.mkdtemp(prefix="demo-" + mid + "-", dir="/tmp")
            shutil.copytree(ddir, tmpd, dirs_exist_ok=True)
            if m:
                for root, _, fs in os.walk(tmpd):
                  for f in fs:
                    p = os.path.join(root, f)
                    try:
                        s = open(p).read().replace(m.group(0), wt).replace(ddir, tmpd)
                        open(p, "w").write(s)
                    except Exception:
                        pass
            run_demo = f"bash {os.path.join(tmpd, 'demo.sh')}"
            placed.append(tmpd)
            demo_where = "script"
        else:
            src = open(demo).read()
            pkg = re.search(r"^package (\w+)", src, re.M).group(1)
            if pkg in ("bebop", "bebop_test"):
                subs = ["."]
            elif pkg.startswith("iohelp"):
                subs = ["iohelp"]
            elif pkg == "main" or pkg == "main_test":
                subs = ["main/bebopfmt" if "bebopfmt" in src else "main/bebopc-go"]
            elif pkg.startswith("importgraph"):
                subs = ["internal/importgraph"]
            else:
                # demo packages of their own: some say "<worktree>/<pkg>/", some "<worktree>/internal/<pkg>/"
                subs = [pkg, "internal/" + pkg]
            names = re.findall(r"^func (Test\w+)\(", src, re.M)
            pat = "|".join("^" + n + "$" for n in names if n != "TestMain")
            for sub in subs:
                os.makedirs(os.path.join(wt, sub), exist_ok=True)
                dst = os.path.join(wt, sub, "zz_seeded_demo_test.go")
                shutil.copy(demo, dst)
                flags = os.environ.get("DEMO_FLAGS", "")  # e.g. -race for demos that need the race detector
                run_demo = f"go test {flags} -vet=off -count=1 -run '{pat}' ./{sub}/" if sub != "." else f"go test {flags} -vet=off -count=1 -run '{pat}' ."
                if len(subs) == 1:
                    break
                rc0, _ = sh(run_demo, wt)
                sh("git checkout -- . ", wt)
                if rc0 == 0:
                    break
                os.remove(dst)
            placed.append(dst)
            demo_where = sub
        res["demo_cmd"] = run_demo
        rc, out = sh(run_demo, wt)
        res["clean_demo_rc"], res["clean_demo_tail"] = rc, out[-600:]
        sh("git checkout -- . ", wt)  # the root tests regenerate testdata
        # apply the patch
        rc, out = sh(f"git apply {patch}", wt)
        if rc != 0:
            res["error"] = "patch does not apply: " + out[-300:]
            return res
        rc, out = sh("go build ./...", wt)
        res["patched_build_rc"] = rc
        # suite without the demo file
        moved = None
        for p in placed:
            if p.endswith("_test.go"):
                moved = p + ".off"
                os.rename(p, moved)
        rc, out = sh("go test -vet=off -count=1 ./...", wt)
        res["patched_suite_rc"], res["patched_suite_tail"] = rc, out[-400:]
        if moved:
            os.rename(moved, moved[:-4])
        sh("git checkout -- testdata", wt)
        rc, out = sh(run_demo, wt)
        res["patched_demo_rc"], res["patched_demo_tail"] = rc, out[-800:]
        res["confirmed"] = (res["clean_demo_rc"] == 0 and res["patched_build_rc"] == 0 and res["patched_suite_rc"] == 0 and res["patched_demo_rc"] != 0)
        return res
    finally:
        subprocess.run(f"git -C /repo worktree remove --force {wt}", shell=True, capture_output=True)
        shutil.rmtree(wt, ignore_errors=True)
        for p in [x for x in locals().get("placed", []) if os.path.isdir(x)]:
            shutil.rmtree(p, ignore_errors=True)

if __name__ == "__main__":
    print(json.dumps(main(), indent=1))
