#!/bin/bash
# usage: tools/try_round.sh <outdir> [Cxx ...] — runs every m*/patch.diff of the given properties against its own property's check
out="$1"; shift
props="$@"; [ -z "$props" ] && props=$(ls $out)
for p in $props; do for m in m1 m2; do
  f=$out/$p/$m/patch.diff; [ -f $f ] || continue
  /verif/tools/try_mutant.sh $f $p 2>&1 | cut -c1-420
done; done
