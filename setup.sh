#!/bin/bash
# Offline setup: build the controller and warm the instrumented standard-library builds.
set -u
cd "$(dirname "$0")"
export GOFLAGS=-mod=mod GOPROXY=off GOSUMDB=off GOTOOLCHAIN=local CGO_ENABLED=1
mkdir -p bin evidence replays .work
cp -f /repo/go.sum harness/go.sum 2>/dev/null || true
(cd harness && go build -o ../bin/vcheck ./cmd/vcheck) || exit 1
(cd harness && go build -tags verif -o /dev/null ./cmd/ioworker ./cmd/feworker) || exit 1
(cd harness && go build -tags verif -asan -o /dev/null ./cmd/ioworker) || echo "warning: -asan build unavailable"
(cd harness && go build -tags verif -race -o /dev/null ./cmd/feworker) || echo "warning: -race build unavailable"
echo setup ok
