#!/bin/bash
# Offline setup: build the controller and warm the instrumented standard-library builds.
set -u
cd "$(dirname "$0")"
export GOFLAGS=-mod=mod GOPROXY=off GOSUMDB=off GOTOOLCHAIN=local CGO_ENABLED=1
mkdir -p bin evidence replays .work
cp -f /repo/go.sum harness/go.sum 2>/dev/null || true
(cd harness && go build -o ../bin/vcheck ./cmd/vcheck) || exit 1
(cd harness && go build -tags verif -o /dev/null ./cmd/ioworker && go build -tags verif -asan -o /dev/null ./cmd/ioworker) || exit 1
(cd harness && go build -race -o /dev/null std 2>/dev/null; true)
echo setup ok
