#!/bin/bash
# Validates MANIFEST.json and every evidence file against the schemas.
cd "$(dirname "$0")"
python3-vt - <<'PY'
import json,jsonschema,glob,sys
ok=True
try:
    jsonschema.validate(json.load(open('MANIFEST.json')),json.load(open('/root/.vp/MANIFEST.schema.json')))
except Exception as e:
    print('MANIFEST invalid:',e); ok=False
es=json.load(open('/root/.vp/EVIDENCE.schema.json'))
for f in sorted(glob.glob('evidence/*.json')):
    try: jsonschema.validate(json.load(open(f)),es)
    except Exception as e: print(f,'invalid:',str(e)[:300]); ok=False
print('valid' if ok else 'INVALID'); sys.exit(0 if ok else 1)
PY
