package codec

import (
	"encoding/hex"
	"fmt"
	"math"
	"math/rand"
	"strconv"
	"strings"

	"verif/harness/schema"
)

// VG generates abstract values.
type VG struct {
	C        *Ctx
	R        *rand.Rand
	SubTick  bool // allow instants that are not multiples of 100ns (C01 only)
	NaNKeys  bool // allow NaN float map keys
	// MultiUnion: some union values have TWO members set (the Go type permits it; the encoders
	// must still agree with each other and with Size()). Only for checks that compare the
	// encoders among themselves: what such a value means on the wire is not specified.
	MultiUnion bool
	MaxDepth int
	heights  map[string]int
	// shift is added to the variant index of every field value (not to the presence mask of
	// messages): RecordsRich uses it to decorrelate "which fields are present" from "which variant
	// a field takes" — with one index driving both, a message's map field was never both present
	// and filled with several entries among the first dozen values.
	shift int
	// BigN > 0 makes the "many elements" variants of top-level arrays and of maps with 32/64-bit
	// integer keys hold BigN elements (C06: a valid encoding large enough for "allocates out of
	// proportion to the bytes it was given" to be decidable on its prefixes).
	BigN int
}

func NewVG(c *Ctx, seed int64) *VG {
	return &VG{C: c, R: rand.New(rand.NewSource(seed)), MaxDepth: 3}
}

const inf = 1 << 20

// height: minimal nesting needed to finish a value of the definition.
func (g *VG) height(name string) int {
	if g.heights == nil {
		g.heights = map[string]int{}
		defs := g.C.S.All()
		for _, d := range defs {
			g.heights[d.Name] = inf
		}
		for changed := true; changed; {
			changed = false
			for _, d := range defs {
				h := inf
				switch d.Kind {
				case "enum", "message":
					h = 0
				case "struct":
					h = 0
					for _, f := range d.Fields {
						if f.Type.IsSimple() && !schema.IsPrimitive(f.Type.Name) {
							if x := g.heights[f.Type.Name] + 1; x > h {
								h = x
							}
						}
					}
				case "union":
					for _, b := range d.Branches {
						if x := g.heights[b.Def.Name] + 1; x < h {
							h = x
						}
					}
				default:
					continue
				}
				if h > inf {
					h = inf
				}
				if h < g.heights[d.Name] {
					g.heights[d.Name] = h
					changed = true
				}
			}
		}
	}
	if h, ok := g.heights[name]; ok {
		return h
	}
	return 0
}

func dec(v int64) string   { return strconv.FormatInt(v, 10) }
func udec(v uint64) string { return strconv.FormatUint(v, 10) }
func hx(s string) string   { return hex.EncodeToString([]byte(s)) }

var longString = strings.Repeat("0123456789abcdef", 19) // 304 bytes

// PrimValues is the boundary list of a primitive type.
func (g *VG) PrimValues(name string) []any {
	switch name {
	case "bool":
		return []any{false, true}
	case "byte", "uint8":
		return []any{"0", "1", "127", "128", "255", "85"}
	case "uint16":
		return []any{"0", "1", "255", "256", "32767", "32768", "65535", "43690"}
	case "int16":
		return []any{"0", "1", "-1", "32767", "-32768", "255", "-256", "21845"}
	case "uint32":
		return []any{"0", "1", "65535", "65536", "2147483647", "2147483648", "4294967295", "16909060"}
	case "int32":
		return []any{"0", "1", "-1", "2147483647", "-2147483648", "65536", "-65537", "16909060"}
	case "uint64":
		return []any{"0", "1", "4294967295", "4294967296", "9223372036854775807", "9223372036854775808", "18446744073709551615", "72623859790382856"}
	case "int64":
		return []any{"0", "1", "-1", "9223372036854775807", "-9223372036854775808", "4294967296", "-4294967297", "72623859790382856"}
	case "float32":
		return []any{"0", "80000000", "3f800000", "bf800000", "7f800000", "ff800000", "7fc00000", "7fa00001", "ffc12345", "1", "7f7fffff", "40490fdb"}
	case "float64":
		return []any{"0", "8000000000000000", "3ff0000000000000", "bff0000000000000", "7ff0000000000000", "fff0000000000000", "7ff8000000000000",
			"7ff4000000000001", "fff8123456789abc", "1", "7fefffffffffffff", "400921fb54442d18"}
	case "string":
		return []any{hx(""), hx("a"), hx("hello, wörld ✓"), hx(longString), "fffe80c3", hx("nul\x00inside"), hx(" "), hx(strings.Repeat(longString, 15))}
	case "guid":
		return []any{"000102030405060708090a0b0c0d0e0f", "00000000000000000000000000000000", "ffffffffffffffffffffffffffffffff",
			"e215a946b26f4567a27613136f0a1708", "80000000000000000000000000000001"}
	case "date":
		l := []any{"zero", "100", "-100", "1700000000000000000", "-1700000000000000000", "1600000000123456700@3600", "946684800000000000@-28800",
			"9223372036854775800", "-9223372036854775800", "253402300799999999900@0", "4102444800000000000"}
		// 253402300799999999900 overflows int64: replace by a valid late instant
		l[9] = "7258118400000000000@19800"
		if g.SubTick {
			l = append(l, "1600000000123456789", "1600000000000000050@7200", "150", "-1600000000123456789", "-631152000000000001", "-150")
		}
		return l
	}
	return nil
}

func (g *VG) enumValues(d *schema.Def) []any {
	var out []any
	vals, _ := d.OptionValues()
	for _, v := range vals {
		if v != nil {
			out = append(out, v.String())
		}
	}
	bits, uns := schema.IntBits(d.BaseOf())
	if uns {
		out = append(out, "0", udec(uint64(1)<<uint(bits-1)), udec(math.MaxUint64>>(64-uint(bits))))
	} else {
		out = append(out, "0", dec(-1<<uint(bits-1)), dec(1<<uint(bits-1)-1), "-1")
	}
	return out
}

// Type draws the i-th value of a type.
func (g *VG) Type(t schema.Type, i, depth int) any {
	switch t.Kind {
	case "array":
		if t.Elem.IsSimple() && (t.Elem.Name == "byte" || t.Elem.Name == "uint8") {
			switch i % 6 {
			case 0:
				return nil
			case 1:
				return ""
			case 2:
				return "7f"
			case 3:
				return "00ff10a55a"
			}
			n := 300
			if i%6 == 5 && depth <= 2 {
				n = 5000 // longer than any up-front allocation a stream decoder makes
			}
			b := make([]byte, n)
			for j := range b {
				b[j] = byte(j*7 + i)
			}
			return hex.EncodeToString(b)
		}
		if depth > g.MaxDepth+1 {
			return nil
		}
		var n int
		switch i % 7 {
		case 0:
			return nil
		case 1:
			return []any{}
		case 2:
			n = 1
		case 3:
			n = 3
		case 4, 6:
			n = 2
		case 5:
			n = 2
			if depth <= 1 {
				n = 21 // more elements than a stream decoder pre-allocates
			}
			if g.BigN > 0 && depth == 0 {
				n = g.BigN
			}
		}
		out := make([]any, n)
		for j := range out {
			out[j] = g.Type(*t.Elem, i+j*7+2, depth+1)
		}
		return out
	case "map":
		if depth > g.MaxDepth+1 {
			return nil
		}
		var n int
		switch i % 4 {
		case 0:
			return nil
		case 1:
			return []any{}
		case 2:
			n = 1
		case 3:
			n = 3
		}
		if g.BigN > 0 && depth == 0 && n == 3 && (t.Key == "uint32" || t.Key == "int32" || t.Key == "uint64" || t.Key == "int64") {
			out := make([]any, 0, g.BigN)
			for j := 0; j < g.BigN; j++ {
				out = append(out, []any{strconv.Itoa(j*7 + 1), g.Type(*t.Val, i+j*5+1, depth+1)})
			}
			return out
		}
		keys := g.PrimValues(t.Key)
		if t.Key == "date" {
			keys = distinctDates(keys)
		}
		if t.Key == "float32" || t.Key == "float64" {
			var ks []any
			for _, k := range keys {
				ks0 := k.(string)
				if !g.NaNKeys && isNaNHex(t.Key, ks0) {
					continue
				}
				if ks0 == "80000000" || ks0 == "8000000000000000" {
					continue // -0 and +0 are the same Go map key
				}
				ks = append(ks, k)
			}
			keys = ks
		}
		if n > len(keys) {
			n = len(keys)
		}
		out := make([]any, 0, n)
		for j := 0; j < n; j++ {
			k := keys[(i/4+j)%len(keys)]
			out = append(out, []any{k, g.Type(*t.Val, i+j*5+1, depth+1)})
		}
		return out
	}
	if schema.IsPrimitive(t.Name) {
		l := g.PrimValues(t.Name)
		if g.BigN > 0 && depth > 0 && t.Name == "string" {
			// big containers are about element COUNT: keep their elements short
			var short []any
			for _, x := range l {
				if len(x.(string)) <= 64 {
					short = append(short, x)
				}
			}
			l = short
		}
		return l[i%len(l)]
	}
	d := g.C.S.Find(t.Name)
	if d == nil {
		return nil
	}
	if d.Kind == "enum" {
		l := g.enumValues(d)
		return l[i%len(l)]
	}
	return g.Record(d, i, depth+1)
}

// distinctDates keeps dates that are distinct as wire ticks AND as Go map keys.
func distinctDates(in []any) []any {
	seen := map[int64]bool{}
	var out []any
	for _, k := range in {
		t, _ := Ticks(k)
		s := k.(string)
		if strings.Contains(s, "@") && !strings.HasSuffix(s, "@0") {
			continue // same instant in another zone is another Go map key
		}
		if s != "zero" && t == 0 {
			continue
		}
		if seen[t] {
			continue
		}
		seen[t] = true
		out = append(out, k)
	}
	return out
}

func isNaNHex(typ, s string) bool {
	u, _ := strconv.ParseUint(s, 16, 64)
	if typ == "float32" {
		return u&0x7f800000 == 0x7f800000 && u&0x007fffff != 0
	}
	return u&0x7ff0000000000000 == 0x7ff0000000000000 && u&0x000fffffffffffff != 0
}

// Record draws the i-th value of a record definition.
func (g *VG) Record(d *schema.Def, i, depth int) any {
	switch d.Kind {
	case "struct":
		out := make([]any, len(d.Fields))
		for j, f := range d.Fields {
			out[j] = g.Type(f.Type, i+j*3+g.shift, depth)
		}
		return out
	case "message":
		fs := d.SortedFields()
		out := make([]any, len(fs))
		if depth > g.MaxDepth {
			return out
		}
		k := len(fs)
		var mask uint64
		switch {
		case i == 0:
			mask = ^uint64(0)
		case i == 1:
			mask = 0
		case k <= 6:
			mask = uint64(i-2) % (1 << uint(k))
		default:
			mask = g.R.Uint64()
		}
		for j, f := range fs {
			if mask&(1<<uint(j)) != 0 {
				out[j] = map[string]any{"p": g.Type(f.Type, i+j*3+1+g.shift, depth)}
			}
		}
		return out
	case "union":
		bs := d.SortedBranches()
		out := make([]any, len(bs))
		b := i % len(bs)
		if depth > g.MaxDepth {
			best := inf + 1
			for j, br := range bs {
				if h := g.height(br.Def.Name); h < best {
					best, b = h, j
				}
			}
		}
		out[b] = map[string]any{"p": g.Record(bs[b].Def, i/len(bs), depth+1)}
		if g.MultiUnion && len(bs) >= 2 && depth <= g.MaxDepth && i%5 == 4 {
			if b2 := (b + 1 + i/5%(len(bs)-1)) % len(bs); b2 != b && g.height(bs[b2].Def.Name) < inf {
				out[b2] = map[string]any{"p": g.Record(bs[b2].Def, i/len(bs)+1, depth+1)}
			}
		}
		return out
	}
	return nil
}

// Finite reports whether the definition has finite values at all (a struct that reaches
// itself through a union all of whose members lead back to it has none).
func (g *VG) Finite(d *schema.Def) bool { return g.height(d.Name) < inf }

// Records returns n values of a record (deterministic for a given VG seed).
func (g *VG) Records(d *schema.Def, n int) []any {
	if !g.Finite(d) {
		return nil
	}
	out := make([]any, n)
	for i := range out {
		out[i] = g.Record(d, i, 0)
	}
	return out
}

// RecordsRich returns Records(d, n) followed by six more values in which every field is present
// (messages) and the variant of every field value is shifted by 1..6, so that each container
// field takes each of its variants (nil, empty, one, several, many elements) at least once
// while everything around it is present too.
func (g *VG) RecordsRich(d *schema.Def, n int) []any {
	var out []any
	g.EachRich(d, n, func(v any) bool {
		out = append(out, v)
		return true
	})
	return out
}

// EachRich produces the values of RecordsRich one at a time (f returns false to stop).
func (g *VG) EachRich(d *schema.Def, n int, f func(v any) bool) {
	if !g.Finite(d) {
		return
	}
	for i := 0; i < n; i++ {
		if !f(g.Record(d, i, 0)) {
			return
		}
	}
	nb := 1
	if d.Kind == "union" {
		nb = len(d.Branches)
	}
	defer func() { g.shift = 0 }()
	for s := 1; s <= 6; s++ {
		for b := 0; b < nb && b < 4; b++ {
			g.shift = s
			v := g.Record(d, b, 0)
			g.shift = 0
			if !f(v) {
				return
			}
		}
	}
}

// ---------------------------------------------------------------------------------------
// comparison up to the wire format's normalisations

type eqOpts struct {
	decodedSide bool
}

// Equal reports whether got (decoded by the code under test) equals exp (the value that
// was encoded) up to: deprecated message fields dropped, nil == empty containers, dates in
// UTC at 100ns resolution. It returns "" or the path and values of the first difference.
func (c *Ctx) Equal(t schema.Type, exp, got any, path string) string {
	switch t.Kind {
	case "array":
		if t.Elem.IsSimple() && (t.Elem.Name == "byte" || t.Elem.Name == "uint8") {
			e, _ := exp.(string)
			gg, _ := got.(string)
			if e != gg {
				return fmt.Sprintf("%s: bytes %q vs %q", path, short(e), short(gg))
			}
			return ""
		}
		el, _ := exp.([]any)
		gl, ok := got.([]any)
		if got != nil && !ok {
			return fmt.Sprintf("%s: array expected, got %T", path, got)
		}
		if len(el) != len(gl) {
			return fmt.Sprintf("%s: length %d vs %d", path, len(el), len(gl))
		}
		for i := range el {
			if d := c.Equal(*t.Elem, el[i], gl[i], fmt.Sprintf("%s[%d]", path, i)); d != "" {
				return d
			}
		}
		return ""
	case "map":
		el, _ := exp.([]any)
		gl, ok := got.([]any)
		if got != nil && !ok {
			return fmt.Sprintf("%s: map expected, got %T", path, got)
		}
		if len(el) != len(gl) {
			return fmt.Sprintf("%s: %d vs %d entries", path, len(el), len(gl))
		}
		used := make([]bool, len(gl))
		for _, e := range el {
			ekv := e.([]any)
			found := false
			for j, x := range gl {
				if used[j] {
					continue
				}
				gkv, ok := x.([]any)
				if !ok || len(gkv) != 2 {
					return fmt.Sprintf("%s: malformed entry", path)
				}
				if c.Equal(schema.Simple(t.Key), ekv[0], gkv[0], "") == "" && c.Equal(*t.Val, ekv[1], gkv[1], "") == "" {
					used[j] = true
					found = true
					break
				}
			}
			if !found {
				return fmt.Sprintf("%s: entry with key %v not found (or its value differs)", path, ekv[0])
			}
		}
		return ""
	}
	if schema.IsPrimitive(t.Name) {
		if t.Name == "date" {
			return dateEqual(exp, got, path)
		}
		if exp != got {
			return fmt.Sprintf("%s: %v vs %v", path, short(fmt.Sprint(exp)), short(fmt.Sprint(got)))
		}
		return ""
	}
	d := c.S.Find(t.Name)
	if d == nil {
		return path + ": unknown type " + t.Name
	}
	return c.EqualDef(d, exp, got, path)
}

func short(s string) string {
	if len(s) > 48 {
		return s[:48] + "…"
	}
	return s
}

func dateEqual(exp, got any, path string) string {
	es, _ := exp.(string)
	gs, ok := got.(string)
	if !ok {
		return fmt.Sprintf("%s: date expected, got %T", path, got)
	}
	et, err := Ticks(es)
	if err != nil {
		return path + ": bad expected date"
	}
	if gs == "zero" {
		if et != 0 {
			return fmt.Sprintf("%s: date %s decoded as the zero time", path, es)
		}
		return ""
	}
	parts := strings.Split(gs, "@")
	if len(parts) >= 3 && (parts[1] != "0" || parts[2] != "UTC") {
		return fmt.Sprintf("%s: decoded date is not in UTC (%s)", path, gs)
	}
	gns, err := strconv.ParseInt(parts[0], 10, 64)
	if err != nil {
		return path + ": bad decoded date " + gs
	}
	if gns%100 != 0 {
		return fmt.Sprintf("%s: decoded date %s is finer than 100ns", path, gs)
	}
	gt := gns / 100
	ens, _ := strconv.ParseInt(strings.SplitN(es, "@", 2)[0], 10, 64)
	if es != "zero" && ens%100 != 0 {
		// sub-tick instant: either rounding direction is accepted
		if gt == et || gt == et+1 || gt == et-1 {
			return ""
		}
	}
	if gt != et {
		return fmt.Sprintf("%s: date ticks %d vs %d", path, et, gt)
	}
	return ""
}

// EqualDef compares values of a definition.
func (c *Ctx) EqualDef(d *schema.Def, exp, got any, path string) string {
	switch d.Kind {
	case "enum":
		if exp != got {
			return fmt.Sprintf("%s: enum %v vs %v", path, exp, got)
		}
		return ""
	case "struct":
		el, _ := exp.([]any)
		gl, ok := got.([]any)
		if !ok || len(gl) != len(d.Fields) || len(el) != len(d.Fields) {
			return fmt.Sprintf("%s: struct %s shape mismatch", path, d.Name)
		}
		for i, f := range d.Fields {
			if x := c.Equal(f.Type, el[i], gl[i], path+"."+f.Name); x != "" {
				return x
			}
		}
		return ""
	case "message":
		fs := d.SortedFields()
		el, _ := exp.([]any)
		gl, ok := got.([]any)
		if !ok || len(gl) != len(fs) || len(el) != len(fs) {
			return fmt.Sprintf("%s: message %s shape mismatch", path, d.Name)
		}
		for i, f := range fs {
			ev, ep := present(el[i])
			gv, gp := present(gl[i])
			if f.Deprecated && !c.KeepDeprecated {
				ep = false // deprecated fields are not transmitted
			}
			if ep != gp {
				return fmt.Sprintf("%s.%s: present %v vs %v", path, f.Name, ep, gp)
			}
			if ep {
				if x := c.Equal(f.Type, ev, gv, path+"."+f.Name); x != "" {
					return x
				}
			}
		}
		return ""
	case "union":
		bs := d.SortedBranches()
		el, _ := exp.([]any)
		gl, ok := got.([]any)
		if !ok || len(gl) != len(bs) || len(el) != len(bs) {
			return fmt.Sprintf("%s: union %s shape mismatch", path, d.Name)
		}
		for i, b := range bs {
			ev, ep := present(el[i])
			gv, gp := present(gl[i])
			if ep != gp {
				return fmt.Sprintf("%s: member %s present %v vs %v", path, b.Def.Name, ep, gp)
			}
			if ep {
				if x := c.EqualDef(b.Def, ev, gv, path+"."+b.Def.Name); x != "" {
					return x
				}
			}
		}
		return ""
	}
	return path + ": cannot compare a " + d.Kind
}

// HasMultiMap reports whether the value contains a map with two or more entries (byte
// comparison across encoders is then only meaningful after decoding).
func (c *Ctx) HasMultiMap(t schema.Type, v any) bool {
	switch t.Kind {
	case "array":
		l, _ := v.([]any)
		for _, e := range l {
			if c.HasMultiMap(*t.Elem, e) {
				return true
			}
		}
		return false
	case "map":
		l, _ := v.([]any)
		if len(l) >= 2 {
			return true
		}
		for _, e := range l {
			if c.HasMultiMap(*t.Val, e.([]any)[1]) {
				return true
			}
		}
		return false
	}
	if schema.IsPrimitive(t.Name) {
		return false
	}
	d := c.S.Find(t.Name)
	if d == nil {
		return false
	}
	return c.DefHasMultiMap(d, v)
}

func (c *Ctx) DefHasMultiMap(d *schema.Def, v any) bool {
	l, _ := v.([]any)
	switch d.Kind {
	case "struct":
		for i, f := range d.Fields {
			if i < len(l) && c.HasMultiMap(f.Type, l[i]) {
				return true
			}
		}
	case "message":
		for i, f := range d.SortedFields() {
			if i < len(l) {
				if pv, ok := present(l[i]); ok && !f.Deprecated && c.HasMultiMap(f.Type, pv) {
					return true
				}
			}
		}
	case "union":
		for i, b := range d.SortedBranches() {
			if i < len(l) {
				if pv, ok := present(l[i]); ok && c.DefHasMultiMap(b.Def, pv) {
					return true
				}
			}
		}
	}
	return false
}
