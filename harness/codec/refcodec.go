// Package codec is the controller-side model of Bebop values and of the wire format: an
// independent reference encoder/decoder (written from the statement of C03, using
// encoding/binary), a per-byte role map, value generation and the normalising comparison.
// It shares no code with the repository.
//
// Abstract values (the same shapes the driver speaks):
//
//	bool -> bool; integers and enums -> decimal string; float32/64 -> hex bit pattern;
//	string -> hex of its bytes; guid -> 32 hex digits (canonical order);
//	date -> "zero" | "<unixnano>[@<offset seconds>[@<location>]]";
//	array -> []any (nil = nil slice); byte arrays -> hex string (nil = nil slice);
//	map -> []any of [key, value] pairs (nil = nil map);
//	struct -> []any of field values (declaration order);
//	message -> []any per field in index order: nil | {"p": value};
//	union -> []any per branch in discriminator order, exactly one {"p": value}.
package codec

import (
	"encoding/binary"
	"encoding/hex"
	"errors"
	"fmt"
	"math"
	"strconv"
	"strings"

	"verif/harness/schema"
)

type Ctx struct {
	S *schema.Schema
	// KeepDeprecated makes Equal expect deprecated message fields to be present when the
	// expected value has them (C04: a newer peer still transmits them; a reader decodes them).
	KeepDeprecated bool
	// EmitDeprecated makes the reference encoder transmit deprecated message fields that
	// are present in the value (what an older or foreign writer does).
	EmitDeprecated bool
}

// Role describes one byte of an encoding.
type Role struct {
	Kind string // msg.len msg.index msg.end union.len union.disc array.count map.count string.len string.body enum prim:<t> bytes.body
	Path string
}

type Writer struct {
	B     []byte
	Roles []Role
}

func (w *Writer) put(b []byte, kind, path string) {
	w.B = append(w.B, b...)
	for range b {
		w.Roles = append(w.Roles, Role{kind, path})
	}
}

func le(n int, v uint64) []byte {
	b := make([]byte, 8)
	binary.LittleEndian.PutUint64(b, v)
	return b[:n]
}

var primWidth = map[string]int{"bool": 1, "byte": 1, "uint8": 1, "uint16": 2, "int16": 2, "uint32": 4, "int32": 4, "uint64": 8, "int64": 8,
	"float32": 4, "float64": 8, "guid": 16, "date": 8}

// Ticks converts a date value to 100ns ticks since the Unix epoch (truncating toward zero,
// exact for the multiples of 100ns that byte-comparing checks use).
func Ticks(v any) (int64, error) {
	s, ok := v.(string)
	if !ok {
		return 0, fmt.Errorf("date: %T", v)
	}
	if s == "zero" {
		return 0, nil
	}
	ns, err := strconv.ParseInt(strings.SplitN(s, "@", 2)[0], 10, 64)
	if err != nil {
		return 0, err
	}
	return ns / 100, nil
}

func parseInt(v any) (uint64, error) {
	s, ok := v.(string)
	if !ok {
		return 0, fmt.Errorf("integer: got %T", v)
	}
	if strings.HasPrefix(s, "-") {
		i, err := strconv.ParseInt(s, 10, 64)
		return uint64(i), err
	}
	return strconv.ParseUint(s, 10, 64)
}

func (c *Ctx) encodePrim(w *Writer, name string, v any, path string) error {
	switch name {
	case "bool":
		b, ok := v.(bool)
		if !ok {
			return fmt.Errorf("%s: bool expected, got %T", path, v)
		}
		x := byte(0)
		if b {
			x = 1
		}
		w.put([]byte{x}, "prim:bool", path)
	case "byte", "uint8", "uint16", "int16", "uint32", "int32", "uint64", "int64":
		u, err := parseInt(v)
		if err != nil {
			return fmt.Errorf("%s: %v", path, err)
		}
		w.put(le(primWidth[name], u), "prim:"+name, path)
	case "float32", "float64":
		s, _ := v.(string)
		u, err := strconv.ParseUint(s, 16, 64)
		if err != nil {
			return fmt.Errorf("%s: %v", path, err)
		}
		w.put(le(primWidth[name], u), "prim:"+name, path)
	case "string":
		s, _ := v.(string)
		b, err := hex.DecodeString(s)
		if err != nil {
			return fmt.Errorf("%s: %v", path, err)
		}
		w.put(le(4, uint64(len(b))), "string.len", path)
		w.put(b, "string.body", path)
	case "guid":
		s, _ := v.(string)
		g, err := hex.DecodeString(s)
		if err != nil || len(g) != 16 {
			return fmt.Errorf("%s: bad guid", path)
		}
		w.put([]byte{g[3], g[2], g[1], g[0], g[5], g[4], g[7], g[6], g[8], g[9], g[10], g[11], g[12], g[13], g[14], g[15]}, "prim:guid", path)
	case "date":
		t, err := Ticks(v)
		if err != nil {
			return fmt.Errorf("%s: %v", path, err)
		}
		w.put(le(8, uint64(t)), "prim:date", path)
	default:
		return fmt.Errorf("%s: not a primitive: %s", path, name)
	}
	return nil
}

// Encode appends the wire encoding of v (of type t) to w.
func (c *Ctx) Encode(w *Writer, t schema.Type, v any, path string) error {
	switch t.Kind {
	case "array":
		if t.Elem.IsSimple() && (t.Elem.Name == "byte" || t.Elem.Name == "uint8") {
			var b []byte
			if v != nil {
				s, ok := v.(string)
				if !ok {
					return fmt.Errorf("%s: byte array expects hex, got %T", path, v)
				}
				b, _ = hex.DecodeString(s)
			}
			w.put(le(4, uint64(len(b))), "array.count", path)
			w.put(b, "bytes.body", path)
			return nil
		}
		var l []any
		if v != nil {
			var ok bool
			l, ok = v.([]any)
			if !ok {
				return fmt.Errorf("%s: array expects list, got %T", path, v)
			}
		}
		w.put(le(4, uint64(len(l))), "array.count", path)
		for i, e := range l {
			if err := c.Encode(w, *t.Elem, e, fmt.Sprintf("%s[%d]", path, i)); err != nil {
				return err
			}
		}
		return nil
	case "map":
		var l []any
		if v != nil {
			var ok bool
			l, ok = v.([]any)
			if !ok {
				return fmt.Errorf("%s: map expects list of pairs, got %T", path, v)
			}
		}
		w.put(le(4, uint64(len(l))), "map.count", path)
		for i, e := range l {
			kv, ok := e.([]any)
			if !ok || len(kv) != 2 {
				return fmt.Errorf("%s: bad map entry", path)
			}
			if err := c.encodePrim(w, t.Key, kv[0], fmt.Sprintf("%s{%d}.key", path, i)); err != nil {
				return err
			}
			if err := c.Encode(w, *t.Val, kv[1], fmt.Sprintf("%s{%d}.val", path, i)); err != nil {
				return err
			}
		}
		return nil
	}
	if schema.IsPrimitive(t.Name) {
		return c.encodePrim(w, t.Name, v, path)
	}
	d := c.S.Find(t.Name)
	if d == nil {
		return fmt.Errorf("%s: unknown type %s", path, t.Name)
	}
	return c.EncodeDef(w, d, v, path)
}

func present(v any) (any, bool) {
	if v == nil {
		return nil, false
	}
	m, ok := v.(map[string]any)
	if !ok {
		return nil, false
	}
	return m["p"], true
}

// EncodeDef encodes a value of a definition (enum or record).
func (c *Ctx) EncodeDef(w *Writer, d *schema.Def, v any, path string) error {
	switch d.Kind {
	case "enum":
		u, err := parseInt(v)
		if err != nil {
			return fmt.Errorf("%s: %v", path, err)
		}
		bits, _ := schema.IntBits(d.BaseOf())
		w.put(le(bits/8, u), "enum", path)
		return nil
	case "struct":
		l, ok := v.([]any)
		if !ok || len(l) != len(d.Fields) {
			return fmt.Errorf("%s: struct %s expects %d values, got %T", path, d.Name, len(d.Fields), v)
		}
		for i, f := range d.Fields {
			if err := c.Encode(w, f.Type, l[i], path+"."+f.Name); err != nil {
				return err
			}
		}
		return nil
	case "message":
		fs := d.SortedFields()
		l, ok := v.([]any)
		if !ok || len(l) != len(fs) {
			return fmt.Errorf("%s: message %s expects %d slots", path, d.Name, len(fs))
		}
		lenAt := len(w.B)
		w.put(le(4, 0), "msg.len", path)
		for i, f := range fs {
			pv, ok := present(l[i])
			if !ok || (f.Deprecated && !c.EmitDeprecated) {
				continue
			}
			w.put([]byte{byte(f.Index)}, "msg.index", path+"."+f.Name)
			if err := c.Encode(w, f.Type, pv, path+"."+f.Name); err != nil {
				return err
			}
		}
		w.put([]byte{0}, "msg.end", path)
		binary.LittleEndian.PutUint32(w.B[lenAt:], uint32(len(w.B)-lenAt-4))
		return nil
	case "union":
		bs := d.SortedBranches()
		l, ok := v.([]any)
		if !ok || len(l) != len(bs) {
			return fmt.Errorf("%s: union %s expects %d slots", path, d.Name, len(bs))
		}
		for i, b := range bs {
			pv, ok := present(l[i])
			if !ok {
				continue
			}
			lenAt := len(w.B)
			w.put(le(4, 0), "union.len", path)
			w.put([]byte{byte(b.Index)}, "union.disc", path)
			if err := c.EncodeDef(w, b.Def, pv, path+"."+b.Def.Name); err != nil {
				return err
			}
			binary.LittleEndian.PutUint32(w.B[lenAt:], uint32(len(w.B)-lenAt-5))
			return nil
		}
		return fmt.Errorf("%s: union %s without a member", path, d.Name)
	}
	return fmt.Errorf("%s: cannot encode a %s", path, d.Kind)
}

// EncodeRecord is the top-level entry: wire bytes and role map of a record value.
func (c *Ctx) EncodeRecord(name string, v any) ([]byte, []Role, error) {
	d := c.S.Find(name)
	if d == nil {
		return nil, nil, fmt.Errorf("unknown record %s", name)
	}
	w := &Writer{}
	if err := c.EncodeDef(w, d, v, name); err != nil {
		return nil, nil, err
	}
	return w.B, w.Roles, nil
}

// ---------------------------------------------------------------------------------------
// reference decoder

var ErrShort = errors.New("refcodec: input ends inside the value")

type reader struct {
	b   []byte
	pos int
}

func (r *reader) take(n int) ([]byte, error) {
	if n < 0 || r.pos+n > len(r.b) {
		return nil, ErrShort
	}
	x := r.b[r.pos : r.pos+n]
	r.pos += n
	return x, nil
}

func (r *reader) u32() (uint32, error) {
	b, err := r.take(4)
	if err != nil {
		return 0, err
	}
	return binary.LittleEndian.Uint32(b), nil
}

func signed(name string) bool { return name == "int16" || name == "int32" || name == "int64" }

func intString(name string, b []byte) string {
	var u uint64
	for i := len(b) - 1; i >= 0; i-- {
		u = u<<8 | uint64(b[i])
	}
	if signed(name) {
		switch len(b) {
		case 2:
			return strconv.FormatInt(int64(int16(u)), 10)
		case 4:
			return strconv.FormatInt(int64(int32(u)), 10)
		default:
			return strconv.FormatInt(int64(u), 10)
		}
	}
	return strconv.FormatUint(u, 10)
}

func (c *Ctx) decodePrim(r *reader, name string) (any, error) {
	switch name {
	case "bool":
		b, err := r.take(1)
		if err != nil {
			return nil, err
		}
		return b[0] == 1, nil
	case "byte", "uint8", "uint16", "int16", "uint32", "int32", "uint64", "int64":
		b, err := r.take(primWidth[name])
		if err != nil {
			return nil, err
		}
		return intString(name, b), nil
	case "float32", "float64":
		b, err := r.take(primWidth[name])
		if err != nil {
			return nil, err
		}
		var u uint64
		for i := len(b) - 1; i >= 0; i-- {
			u = u<<8 | uint64(b[i])
		}
		return strconv.FormatUint(u, 16), nil
	case "string":
		n, err := r.u32()
		if err != nil {
			return nil, err
		}
		b, err := r.take(int(n))
		if err != nil {
			return nil, err
		}
		return hex.EncodeToString(b), nil
	case "guid":
		g, err := r.take(16)
		if err != nil {
			return nil, err
		}
		return hex.EncodeToString([]byte{g[3], g[2], g[1], g[0], g[5], g[4], g[7], g[6], g[8], g[9], g[10], g[11], g[12], g[13], g[14], g[15]}), nil
	case "date":
		b, err := r.take(8)
		if err != nil {
			return nil, err
		}
		t := int64(binary.LittleEndian.Uint64(b))
		if t == 0 {
			return "zero", nil
		}
		if t > math.MaxInt64/100 || t < math.MinInt64/100 {
			return fmt.Sprintf("ticks:%d", t), nil
		}
		return strconv.FormatInt(t*100, 10), nil
	}
	return nil, fmt.Errorf("not a primitive: %s", name)
}

func (c *Ctx) decode(r *reader, t schema.Type, depth int) (any, error) {
	if depth > 200 {
		return nil, errors.New("refcodec: nesting too deep")
	}
	switch t.Kind {
	case "array":
		n, err := r.u32()
		if err != nil {
			return nil, err
		}
		if t.Elem.IsSimple() && (t.Elem.Name == "byte" || t.Elem.Name == "uint8") {
			b, err := r.take(int(n))
			if err != nil {
				return nil, err
			}
			return hex.EncodeToString(b), nil
		}
		if int(n) > len(r.b)-r.pos && c.minSize(*t.Elem) > 0 {
			return nil, ErrShort
		}
		out := make([]any, 0, minInt(int(n), 1024))
		for i := uint32(0); i < n; i++ {
			e, err := c.decode(r, *t.Elem, depth+1)
			if err != nil {
				return nil, err
			}
			out = append(out, e)
			if len(out) > 1<<22 {
				return nil, errors.New("refcodec: count too large for empty elements")
			}
		}
		return out, nil
	case "map":
		n, err := r.u32()
		if err != nil {
			return nil, err
		}
		if int(n) > len(r.b)-r.pos {
			return nil, ErrShort
		}
		out := make([]any, 0, minInt(int(n), 1024))
		for i := uint32(0); i < n; i++ {
			k, err := c.decodePrim(r, t.Key)
			if err != nil {
				return nil, err
			}
			v, err := c.decode(r, *t.Val, depth+1)
			if err != nil {
				return nil, err
			}
			out = append(out, []any{k, v})
		}
		return out, nil
	}
	if schema.IsPrimitive(t.Name) {
		return c.decodePrim(r, t.Name)
	}
	d := c.S.Find(t.Name)
	if d == nil {
		return nil, fmt.Errorf("unknown type %s", t.Name)
	}
	return c.decodeDef(r, d, depth)
}

func minInt(a, b int) int {
	if a < b {
		return a
	}
	return b
}

// MinSize is the minimal wire size of a value of type t (0 only for structs without content).
func (c *Ctx) MinSize(t schema.Type) int { return c.minSize(t) }

// HasZeroSizeArrayElem reports whether a record (transitively) contains an array whose
// elements can have zero wire size: a count of such elements is not bounded by the input.
func (c *Ctx) HasZeroSizeArrayElem(d *schema.Def) bool {
	seen := map[string]bool{}
	var walkT func(t schema.Type) bool
	var walkD func(d *schema.Def) bool
	walkT = func(t schema.Type) bool {
		switch t.Kind {
		case "array":
			if c.minSize(*t.Elem) == 0 {
				return true
			}
			return walkT(*t.Elem)
		case "map":
			return walkT(*t.Val)
		}
		if schema.IsPrimitive(t.Name) {
			return false
		}
		if dd := c.S.Find(t.Name); dd != nil {
			return walkD(dd)
		}
		return false
	}
	walkD = func(d *schema.Def) bool {
		if seen[d.Name] {
			return false
		}
		seen[d.Name] = true
		for _, f := range d.Fields {
			if walkT(f.Type) {
				return true
			}
		}
		for _, b := range d.Branches {
			if walkD(b.Def) {
				return true
			}
		}
		return false
	}
	return walkD(d)
}

// reach calls f for d and every definition reachable from it through fields and branches.
func (c *Ctx) reach(d *schema.Def, f func(*schema.Def)) {
	seen := map[string]bool{}
	var walk func(d *schema.Def)
	walk = func(d *schema.Def) {
		if d == nil || seen[d.Name] {
			return
		}
		seen[d.Name] = true
		f(d)
		for _, fd := range d.Fields {
			if n := fd.Type.Leaf(); !schema.IsPrimitive(n) {
				walk(c.S.Find(n))
			}
		}
		for _, b := range d.Branches {
			walk(b.Def)
		}
	}
	walk(d)
}

// carriesDeprecated: a message (anywhere below d, d included) has a deprecated field, i.e. a
// peer may put bytes on the wire that the reader's own Size() does not count.
func (c *Ctx) carriesDeprecated(d *schema.Def) bool {
	found := false
	c.reach(d, func(x *schema.Def) {
		if x.Kind == "message" {
			for _, f := range x.Fields {
				if f.Deprecated {
					found = true
				}
			}
		}
	})
	return found
}

// HasNestedStructHoldingDeprecated reports whether d reaches a field (or element, or map value)
// whose type is a STRUCT that holds — directly or through further structs — a message or union
// that can carry deprecated fields. Such a struct is skipped by its recomputed Size() on the
// byte path (known finding, DESIGN section 11): the locus of that finding is this predicate.
func (c *Ctx) HasNestedStructHoldingDeprecated(d *schema.Def) bool {
	var holds func(s *schema.Def, seen map[string]bool) bool
	holds = func(s *schema.Def, seen map[string]bool) bool {
		if s == nil || s.Kind != "struct" || seen[s.Name] {
			return false
		}
		seen[s.Name] = true
		for _, f := range s.Fields {
			n := f.Type.Leaf()
			if schema.IsPrimitive(n) {
				continue
			}
			x := c.S.Find(n)
			if x == nil {
				continue
			}
			if (x.Kind == "message" || x.Kind == "union") && c.carriesDeprecated(x) {
				return true
			}
			if x.Kind == "struct" && holds(x, seen) {
				return true
			}
		}
		return false
	}
	found := false
	c.reach(d, func(x *schema.Def) {
		for _, f := range x.Fields {
			n := f.Type.Leaf()
			if schema.IsPrimitive(n) {
				continue
			}
			if y := c.S.Find(n); y != nil && y.Kind == "struct" && holds(y, map[string]bool{}) {
				found = true
			}
		}
	})
	return found
}

// minSize is the minimal wire size of a value of type t (0 only for empty structs).
func (c *Ctx) minSize(t schema.Type) int {
	switch t.Kind {
	case "array", "map":
		return 4
	}
	if w, ok := primWidth[t.Name]; ok {
		return w
	}
	if t.Name == "string" {
		return 4
	}
	d := c.S.Find(t.Name)
	if d == nil {
		return 1
	}
	switch d.Kind {
	case "enum":
		bits, _ := schema.IntBits(d.BaseOf())
		return bits / 8
	case "message":
		return 5
	case "union":
		return 5
	case "struct":
		n := 0
		for _, f := range d.Fields {
			if f.Type.IsSimple() && f.Type.Name == d.Name {
				continue
			}
			n += c.minSize(f.Type)
		}
		return n
	}
	return 1
}

func (c *Ctx) decodeDef(r *reader, d *schema.Def, depth int) (any, error) {
	switch d.Kind {
	case "enum":
		bits, _ := schema.IntBits(d.BaseOf())
		b, err := r.take(bits / 8)
		if err != nil {
			return nil, err
		}
		return intString(d.BaseOf(), b), nil
	case "struct":
		out := make([]any, len(d.Fields))
		for i, f := range d.Fields {
			v, err := c.decode(r, f.Type, depth+1)
			if err != nil {
				return nil, err
			}
			out[i] = v
		}
		return out, nil
	case "message":
		n, err := r.u32()
		if err != nil {
			return nil, err
		}
		body, err := r.take(int(n))
		if err != nil {
			return nil, err
		}
		br := &reader{b: body}
		fs := d.SortedFields()
		out := make([]any, len(fs))
		for {
			ib, err := br.take(1)
			if err != nil {
				return nil, err
			}
			if ib[0] == 0 {
				break
			}
			found := false
			for i, f := range fs {
				if f.Index == int(ib[0]) {
					v, err := c.decode(br, f.Type, depth+1)
					if err != nil {
						return nil, err
					}
					out[i] = map[string]any{"p": v}
					found = true
					break
				}
			}
			if !found {
				// unknown index: the rest of the body cannot be interpreted; skip it
				break
			}
		}
		return out, nil
	case "union":
		n, err := r.u32()
		if err != nil {
			return nil, err
		}
		db, err := r.take(1)
		if err != nil {
			return nil, err
		}
		body, err := r.take(int(n))
		if err != nil {
			return nil, err
		}
		bs := d.SortedBranches()
		out := make([]any, len(bs))
		for i, b := range bs {
			if b.Index == int(db[0]) {
				br := &reader{b: body}
				v, err := c.decodeDef(br, b.Def, depth+1)
				if err != nil {
					return nil, err
				}
				out[i] = map[string]any{"p": v}
				return out, nil
			}
		}
		return out, nil // unknown discriminator: no member
	}
	return nil, fmt.Errorf("cannot decode a %s", d.Kind)
}

// DecodeRecord decodes one record from b and returns the value and the bytes consumed.
func (c *Ctx) DecodeRecord(name string, b []byte) (any, int, error) {
	d := c.S.Find(name)
	if d == nil {
		return nil, 0, fmt.Errorf("unknown record %s", name)
	}
	r := &reader{b: b}
	v, err := c.decodeDef(r, d, 0)
	return v, r.pos, err
}
