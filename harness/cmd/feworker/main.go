// feworker links /repo's bebop package (tokenizer, parser, validator, formatter, generator)
// and executes front-end operations for the controller. It holds no expectations; it reports
// what the library did, with a metering reader/writer at the boundary.
package main

import (
	"bytes"
	"encoding/hex"
	"encoding/json"
	"errors"
	"fmt"
	"io"
	"os"
	"runtime"

	"github.com/200sc/bebop"
	"verif/harness/core"
)

type readerCfg struct {
	Chunk     int    `json:"chunk"`   // max bytes per Read (0 = unlimited)
	FailAt    int    `json:"fail_at"` // deliver this many bytes, then fail (-1 = never)
	Err       string `json:"err"`     // eof | ueof | generic | timeout
	ZeroReads bool   `json:"zero_reads"`
	EOFData   bool   `json:"eof_with_data"`
	Name      string `json:"name"` // if set the reader is a FileNamer
	// After says what the reader does once it has reported its failure: "" = the same error on
	// every later call, "eof" = io.EOF from then on, "resume" = the remaining data as if nothing
	// had happened (a transient failure)
	After string `json:"after"`
	// ErrWithData: the failing call also delivers the last bytes before the failure point
	// (n > 0 together with a non-nil error, which the io.Reader contract allows)
	ErrWithData bool `json:"err_with_data"`
}

type meterReader struct {
	data      []byte
	cfg       readerCfg
	pos       int
	reads     int
	afterEnd  int
	sawEnd    bool
	flip      bool
	failedErr error
	sawEnd2   bool
}

type timeoutErr struct{}

func (timeoutErr) Error() string   { return "verif: injected i/o timeout" }
func (timeoutErr) Timeout() bool   { return true }
func (timeoutErr) Temporary() bool { return true }

func mkErr(kind string) error {
	switch kind {
	case "", "eof":
		return io.EOF
	case "ueof":
		return io.ErrUnexpectedEOF
	case "timeout":
		return timeoutErr{}
	case "weof":
		// an error that wraps io.EOF without being io.EOF: still a failure, not the end of the input
		return fmt.Errorf("verif: injected failure of the connection: %w", io.EOF)
	}
	return errors.New("verif: injected read failure")
}

func (m *meterReader) Read(p []byte) (int, error) {
	m.reads++
	limit := len(m.data)
	if m.cfg.FailAt >= 0 && m.cfg.FailAt < limit {
		limit = m.cfg.FailAt
	}
	if m.failedErr != nil && m.cfg.After == "resume" {
		limit = len(m.data)
	}
	if m.pos >= limit && m.failedErr != nil && m.cfg.After != "" {
		// after a transient failure: end of input (either at once, or after the remaining data)
		if m.sawEnd2 {
			m.afterEnd++
			if m.afterEnd > 4096 {
				panic(core.RunawaySentinel("reads after end of input"))
			}
		}
		m.sawEnd2 = true
		return 0, io.EOF
	}
	if m.pos >= limit {
		if m.sawEnd {
			m.afterEnd++
			if m.afterEnd > 4096 {
				panic(core.RunawaySentinel("reads after end of input"))
			}
		}
		m.sawEnd = true
		if m.cfg.FailAt >= 0 && m.cfg.FailAt <= len(m.data) {
			m.failedErr = mkErr(m.cfg.Err)
			return 0, m.failedErr
		}
		return 0, io.EOF
	}
	if len(p) == 0 {
		return 0, nil
	}
	if m.cfg.ZeroReads {
		m.flip = !m.flip
		if m.flip {
			return 0, nil
		}
	}
	n := limit - m.pos
	if n > len(p) {
		n = len(p)
	}
	if m.cfg.Chunk > 0 && n > m.cfg.Chunk {
		n = m.cfg.Chunk
	}
	copy(p, m.data[m.pos:m.pos+n])
	m.pos += n
	if m.cfg.ErrWithData && m.failedErr == nil && m.pos >= limit && m.cfg.FailAt >= 0 && m.cfg.FailAt <= len(m.data) {
		m.sawEnd = true
		m.failedErr = mkErr(m.cfg.Err)
		return n, m.failedErr
	}
	if m.pos >= limit && m.cfg.EOFData && m.cfg.FailAt < 0 {
		m.sawEnd = true
		return n, io.EOF
	}
	return n, nil
}

type namedReader struct {
	*meterReader
	name string
}

func (n namedReader) Name() string { return n.name }

type rfItem struct {
	Op     string    `json:"op"`
	From   int       `json:"from"`
	Texts  []string  `json:"texts"` // hex
	Append string    `json:"append"`
	Reader readerCfg `json:"reader"`
	Full   bool      `json:"full"`
	// gen / fmt
	Text     string      `json:"text"` // hex
	Path     string      `json:"path"`
	Settings genSettings `json:"settings"`
	Chdir    string      `json:"chdir"`
	// writer faults
	WFailAt int `json:"w_fail_at"` // fail the k-th Write (1-based), 0 = never
}

type genSettings struct {
	Package  string `json:"package"`
	Combined bool   `json:"combined"`
	Unsafe   bool   `json:"unsafe"`
	Shared   bool   `json:"shared"`
	Tags     bool   `json:"tags"`
	Private  bool   `json:"private"`
	Pointers bool   `json:"pointers"`
	Mode     int    `json:"mode"` // explicit import mode value when >= 0 and set via ModeSet
	ModeSet  bool   `json:"mode_set"`
}

func (g genSettings) toBebop() bebop.GenerateSettings {
	mode := bebop.ImportGenerationModeSeparate
	if g.Combined {
		mode = bebop.ImportGenerationModeCombined
	}
	if g.ModeSet {
		mode = bebop.ImportGenerationMode(g.Mode)
	}
	return bebop.GenerateSettings{
		PackageName:               g.Package,
		ImportGenerationMode:      mode,
		GenerateUnsafeMethods:     g.Unsafe,
		SharedMemoryStrings:       g.Shared,
		GenerateFieldTags:         g.Tags,
		PrivateDefinitions:        g.Private,
		AlwaysUsePointerReceivers: g.Pointers,
	}
}

type rfResult struct {
	Outcome  string      `json:"o"`
	Site     []string    `json:"site,omitempty"`
	Err      string      `json:"err,omitempty"`
	HasErr   bool        `json:"e"`
	Warn     []string    `json:"warn,omitempty"`
	File     *bebop.File `json:"file,omitempty"`
	Structs  []string    `json:"structs,omitempty"`
	NDefs    int         `json:"ndefs"`
	Reads    int         `json:"reads"`
	Pos      int         `json:"pos"`
	SawEnd   bool        `json:"saw_end"`
	AfterEnd int         `json:"after_end"`
	Alloc    uint64      `json:"alloc"`
}

func readOne(text []byte, cfg readerCfg, full bool) rfResult {
	mr := &meterReader{data: text, cfg: cfg}
	var rd io.Reader = mr
	if cfg.Name != "" {
		rd = namedReader{mr, cfg.Name}
	}
	var res rfResult
	var f bebop.File
	var warn []string
	var err error
	var ms0, ms1 runtime.MemStats
	runtime.ReadMemStats(&ms0)
	res.Outcome, res.Site = core.Guard(func() {
		f, warn, err = bebop.ReadFile(rd)
	})
	runtime.ReadMemStats(&ms1)
	res.Alloc = ms1.TotalAlloc - ms0.TotalAlloc
	res.Reads, res.Pos, res.SawEnd, res.AfterEnd = mr.reads, mr.pos, mr.sawEnd, mr.afterEnd
	if res.Outcome != "ok" {
		return res
	}
	if err != nil {
		res.HasErr = true
		res.Err = err.Error()
		if len(res.Err) > 300 {
			res.Err = res.Err[:300]
		}
	}
	res.Warn = warn
	for _, s := range f.Structs {
		res.Structs = append(res.Structs, s.Name)
	}
	res.NDefs = len(f.Structs) + len(f.Messages) + len(f.Enums) + len(f.Unions) + len(f.Consts) + len(f.Imports)
	if full {
		res.File = &f
	}
	return res
}

type failWriter struct {
	buf    bytes.Buffer
	writes int
	failAt int
}

func (w *failWriter) Write(p []byte) (int, error) {
	w.writes++
	if w.failAt > 0 && w.writes >= w.failAt {
		return 0, errors.New("verif: injected write failure")
	}
	return w.buf.Write(p)
}

type genResult struct {
	Outcome string   `json:"o"`
	Site    []string `json:"site,omitempty"`
	ReadErr string   `json:"read_err,omitempty"`
	Err     string   `json:"err,omitempty"`
	HasErr  bool     `json:"e"`
	Out     string   `json:"out"` // raw text
	Writes  int      `json:"writes"`
	Warn    []string `json:"warn,omitempty"`
}

func opGen(it rfItem) any {
	var res genResult
	if it.Chdir != "" {
		os.Chdir(it.Chdir)
	}
	res.Outcome, res.Site = core.Guard(func() {
		var f bebop.File
		var err error
		if it.Path != "" {
			fh, oerr := os.Open(it.Path)
			if oerr != nil {
				res.ReadErr = "open: " + oerr.Error()
				return
			}
			defer fh.Close()
			f, res.Warn, err = bebop.ReadFile(fh)
		} else {
			text, _ := hex.DecodeString(it.Text)
			f, res.Warn, err = bebop.ReadFile(bytes.NewReader(text))
		}
		if err != nil {
			res.ReadErr = err.Error()
			return
		}
		w := &failWriter{failAt: it.WFailAt}
		err = f.Generate(w, it.Settings.toBebop())
		res.Writes = w.writes
		if err != nil {
			res.HasErr = true
			res.Err = err.Error()
		}
		res.Out = w.buf.String()
	})
	return res
}

func opVal(it rfItem) any {
	var res genResult
	res.Outcome, res.Site = core.Guard(func() {
		text, _ := hex.DecodeString(it.Text)
		f, warn, err := bebop.ReadFile(bytes.NewReader(text))
		res.Warn = warn
		if err != nil {
			res.ReadErr = err.Error()
			return
		}
		if err := f.Validate(); err != nil {
			res.HasErr = true
			res.Err = err.Error()
		}
	})
	return res
}

type fmtResult struct {
	Outcome string   `json:"o"`
	Site    []string `json:"site,omitempty"`
	Err     string   `json:"err,omitempty"`
	HasErr  bool     `json:"e"`
	Out     string   `json:"out"` // hex
	Writes  int      `json:"writes"`
}

func formatOne(text []byte, cfg readerCfg, wFail int) fmtResult {
	var res fmtResult
	mr := &meterReader{data: text, cfg: cfg}
	w := &failWriter{failAt: wFail}
	res.Outcome, res.Site = core.Guard(func() {
		err := bebop.Format(mr, w)
		if err != nil {
			res.HasErr = true
			res.Err = err.Error()
		}
	})
	res.Writes = w.writes
	res.Out = hex.EncodeToString(w.buf.Bytes())
	return res
}

func main() {
	core.Serve(func(raw json.RawMessage, e *core.Emitter) any {
		var it rfItem
		it.Reader.FailAt = -1
		if err := json.Unmarshal(raw, &it); err != nil {
			return map[string]any{"harness_error": err.Error()}
		}
		switch it.Op {
		case "rf":
			app, _ := hex.DecodeString(it.Append)
			for i, h := range it.Texts {
				idx := it.From + i
				text, _ := hex.DecodeString(h)
				if len(app) > 0 {
					text = append(append([]byte{}, text...), app...)
				}
				e.Sub(idx)
				e.Res(idx, readOne(text, it.Reader, it.Full))
			}
			return map[string]any{"done": len(it.Texts)}
		case "fmt":
			for i, h := range it.Texts {
				idx := it.From + i
				text, _ := hex.DecodeString(h)
				e.Sub(idx)
				e.Res(idx, formatOne(text, it.Reader, it.WFailAt))
			}
			return map[string]any{"done": len(it.Texts)}
		case "gen":
			return opGen(it)
		case "val":
			return opVal(it)
		case "ping":
			return map[string]any{"pong": true}
		}
		return handleExtra(it, raw, e)
	})
}
