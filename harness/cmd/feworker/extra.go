package main

import (
	"encoding/json"

	"verif/harness/core"
)

// handleExtra dispatches the operations added for later properties.
func handleExtra(it rfItem, raw json.RawMessage, e *core.Emitter) any {
	if h, ok := extraOps[it.Op]; ok {
		return h(it, raw, e)
	}
	return map[string]any{"harness_error": "unknown op " + it.Op}
}

var extraOps = map[string]func(it rfItem, raw json.RawMessage, e *core.Emitter) any{}
