package main

import (
	"bytes"
	"crypto/sha1"
	"encoding/hex"
	"encoding/json"
	"fmt"
	"os"
	"sync"
	"time"

	"github.com/200sc/bebop"
	"verif/harness/core"
)

func init() { extraOps["purity"] = opPurity }

type purityItem struct {
	Path     string        `json:"path"`          // schema file on disk (imports resolved relative to it)
	Settings []genSettings `json:"settings_list"` // option sets for Generate
	Seq      int           `json:"seq"`           // sequential repetitions
	G        int           `json:"g"`             // goroutines
	R        int           `json:"r"`             // repetitions per goroutine
	// Texts (hex) are further inputs for ReadFile and Format only: malformed and unusual
	// texts, whose results (error text included) must be as repeatable as any other
	Texts []string `json:"texts"`
	// Aligned makes every goroutine walk the operations in the same order (default: goroutine g
	// starts at operation g)
	Aligned bool `json:"aligned"`
	// Rot rotates the order of the Generate option sets (the names keep the original indices): which
	// option set a process sees FIRST must not matter to any later call
	Rot int `json:"rot"`
	// Reverse walks the (rotated) option sets backwards
	Reverse bool `json:"reverse"`
}

type callRec struct {
	Op    string `json:"op"`
	Hash  string `json:"hash"`
	IsErr bool   `json:"is_err"`
	T0    int64  `json:"t0"`
	T1    int64  `json:"t1"`
	G     int    `json:"g"`
}

func hashOf(b []byte, err error) (string, bool) {
	h := sha1.Sum(b)
	return hex.EncodeToString(h[:8]), err != nil
}

func opPurity(_ rfItem, raw json.RawMessage, e *core.Emitter) any {
	var it purityItem
	if err := json.Unmarshal(raw, &it); err != nil {
		return map[string]any{"harness_error": err.Error()}
	}
	text, err := os.ReadFile(it.Path)
	if err != nil {
		return map[string]any{"harness_error": err.Error()}
	}
	fh, _ := os.Open(it.Path)
	f, _, err := bebop.ReadFile(fh)
	fh.Close()
	if err != nil {
		return map[string]any{"read_err": err.Error()}
	}
	// The File is the caller's: its slices may have spare capacity (a File assembled with append has).
	// Give every slice four spare slots; whatever the calls do, those slots belong to the caller
	// and must still be zero afterwards (snapshot below: the slices at full capacity).
	f.Structs, f.Messages, f.Enums, f.Unions, f.Consts, f.Imports = withSpare(f.Structs), withSpare(f.Messages), withSpare(f.Enums), withSpare(f.Unions), withSpare(f.Consts), withSpare(f.Imports)
	fullSnap := func() []byte {
		j, _ := json.Marshal([]any{f, f.Structs[:cap(f.Structs)], f.Messages[:cap(f.Messages)], f.Enums[:cap(f.Enums)], f.Unions[:cap(f.Unions)], f.Consts[:cap(f.Consts)], f.Imports[:cap(f.Imports)]})
		return j
	}
	snap := fullSnap()
	caps := map[string][2]int{"structs": {len(f.Structs), cap(f.Structs)}, "messages": {len(f.Messages), cap(f.Messages)},
		"enums": {len(f.Enums), cap(f.Enums)}, "unions": {len(f.Unions), cap(f.Unions)}, "consts": {len(f.Consts), cap(f.Consts)}}
	start := time.Now()
	ops := []func() (string, []byte, error){}
	for i, gs := range it.Settings {
		gs := gs
		name := fmt.Sprintf("Generate#%d", i)
		ops = append(ops, func() (string, []byte, error) {
			var b bytes.Buffer
			err := f.Generate(&b, gs.toBebop())
			return name, b.Bytes(), err
		})
	}
	if n := len(ops); n > 1 && it.Rot%n != 0 {
		k := it.Rot % n
		ops = append(append([]func() (string, []byte, error){}, ops[k:]...), ops[:k]...)
	}
	if it.Reverse {
		for i, j := 0, len(ops)-1; i < j; i, j = i+1, j-1 {
			ops[i], ops[j] = ops[j], ops[i]
		}
	}
	ops = append(ops, func() (string, []byte, error) { return "Validate", nil, f.Validate() })
	ops = append(ops, func() (string, []byte, error) {
		var b bytes.Buffer
		err := bebop.Format(bytes.NewReader(text), &b)
		return "Format", b.Bytes(), err
	})
	ops = append(ops, func() (string, []byte, error) {
		g, w, err := bebop.ReadFile(bytes.NewReader(text))
		j, _ := json.Marshal(g)
		jw, _ := json.Marshal(w)
		return "ReadFile", append(j, jw...), err
	})
	for i, hx := range it.Texts {
		tx, _ := hex.DecodeString(hx)
		i := i
		withErr := func(b []byte, err error) []byte {
			if err != nil {
				return append(b, []byte("\x00error: "+err.Error())...)
			}
			return b
		}
		ops = append(ops, func() (string, []byte, error) {
			var b bytes.Buffer
			err := bebop.Format(bytes.NewReader(tx), &b)
			return fmt.Sprintf("Format!text%d", i), withErr(b.Bytes(), err), err
		})
		ops = append(ops, func() (string, []byte, error) {
			g, w, err := bebop.ReadFile(bytes.NewReader(tx))
			j, _ := json.Marshal(g)
			jw, _ := json.Marshal(w)
			return fmt.Sprintf("ReadFile!text%d", i), withErr(append(j, jw...), err), err
		})
	}
	// Results are recorded per goroutine and merged after the join: a mutex shared by all
	// calls would order them (happens-before) and hide from the race detector every pair of
	// unsynchronised accesses that does not happen to overlap in time.
	run := func(g int, recs *[]callRec, op func() (string, []byte, error)) {
		defer func() {
			if p := recover(); p != nil {
				*recs = append(*recs, callRec{Op: "PANIC", Hash: fmt.Sprint(p), G: g})
			}
		}()
		t0 := time.Since(start).Nanoseconds()
		name, b, err := op()
		t1 := time.Since(start).Nanoseconds()
		h, isErr := hashOf(b, err)
		*recs = append(*recs, callRec{Op: name, Hash: h, IsErr: isErr, T0: t0, T1: t1, G: g})
	}
	var recs []callRec
	for i := 0; i < it.Seq; i++ {
		for _, op := range ops {
			run(-1, &recs, op)
		}
	}
	afterSeq := fullSnap()
	var wg sync.WaitGroup
	gate := make(chan struct{})
	perG := make([][]callRec, it.G)
	bar := newBarrier(it.G)
	for g := 0; g < it.G; g++ {
		wg.Add(1)
		go func(g int) {
			defer wg.Done()
			<-gate
			for r := 0; r < it.R; r++ {
				for k := range ops {
					j := (k + g) % len(ops)
					if it.Aligned {
						// every goroutine runs the same operation at the same moment: they meet at a
						// barrier before each one (which orders nothing that happens inside it)
						j = k
						bar.wait()
					}
					run(g, &perG[g], ops[j])
				}
			}
		}(g)
	}
	close(gate)
	wg.Wait()
	for _, rs := range perG {
		recs = append(recs, rs...)
	}
	after := fullSnap()
	return map[string]any{"calls": recs, "file_unchanged_after_sequential": bytes.Equal(snap, afterSeq), "file_unchanged_after_concurrent": bytes.Equal(snap, after),
		"caps": caps, "ops": len(ops)}
}

func withSpare[T any](s []T) []T {
	n := make([]T, len(s), len(s)+4)
	copy(n, s)
	return n
}

// barrier is a reusable rendezvous of n goroutines.
type barrier struct {
	mu    sync.Mutex
	cond  *sync.Cond
	n     int
	count int
	gen   int
}

func newBarrier(n int) *barrier {
	b := &barrier{n: n}
	b.cond = sync.NewCond(&b.mu)
	return b
}

func (b *barrier) wait() {
	b.mu.Lock()
	g := b.gen
	b.count++
	if b.count == b.n {
		b.gen++
		b.count = 0
		b.cond.Broadcast()
	} else {
		for g == b.gen {
			b.cond.Wait()
		}
	}
	b.mu.Unlock()
}
