package main

import (
	"fmt"
	"math/rand"
	"regexp"
	"strings"

	"verif/harness/core"
	"verif/harness/schema"
)

func init() { checks["C12"] = runC12 }

var lineNoRe = regexp.MustCompile(`gen\.go:\d+:\d+: `)
var identRe = regexp.MustCompile(`\b(Cell|bbp|p\d+)\b[\w.]*`)

// errClassGo normalises the first compiler error of a package.
func errClassGo(e string) string {
	ln := strings.SplitN(strings.TrimSpace(e), "\n", 2)[0]
	if i := lineNoRe.FindStringIndex(ln); i != nil {
		ln = ln[i[1]:]
	}
	ln = regexp.MustCompile(`\([^)]*\)`).ReplaceAllString(ln, "(..)")
	ln = regexp.MustCompile(`[A-Za-z_][\w.\[\]*]*\[[\w\d]+\]`).ReplaceAllString(ln, "X[i]")
	ln = numRe.ReplaceAllString(ln, "N")
	if len(ln) > 70 {
		ln = ln[:70]
	}
	return ln
}

// hazardFamily: names that are legal in a schema but awkward in generated Go.
func hazardFamily() []schema.Named {
	var out []schema.Named
	add := func(name string, defs ...*schema.Def) {
		out = append(out, schema.Named{Name: "hazard/" + name, S: &schema.Schema{Defs: defs}})
	}
	fd := func(n string, t schema.Type) schema.Field { return schema.Field{Name: n, Type: t} }
	st := func(name string, fs ...schema.Field) *schema.Def {
		return &schema.Def{Kind: "struct", Name: name, Fields: fs}
	}
	add("lowercase-type-referenced", st("inner", fd("a", schema.Simple("int32"))), st("Outer", fd("i", schema.Simple("inner"))))
	add("field-named-Size", st("Rec1", fd("Size", schema.Simple("int32"))))
	add("field-named-size", st("Rec1", fd("size", schema.Simple("int32"))))
	add("field-named-MarshalBebop", st("Rec1", fd("MarshalBebop", schema.Simple("int32"))))
	add("field-go-keyword-type", st("Rec1", fd("type", schema.Simple("int32"))))
	add("field-go-keyword-func", st("Rec1", fd("func", schema.Simple("int32")), fd("range", schema.Simple("string"))))
	add("field-named-buf-at", st("Rec1", fd("buf", schema.Simple("int32")), fd("at", schema.Simple("string")), fd("err", schema.Simple("string")), fd("r", schema.Simple("string")), fd("w", schema.Simple("string"))))
	add("one-letter-type", st("R", fd("a", schema.Simple("int32"))), st("W", fd("r", schema.Simple("R"))))
	add("type-named-like-go-builtin", st("Error", fd("a", schema.Simple("int32"))), st("Int", fd("e", schema.Simple("Error"))))
	add("non-ascii-identifiers", st("Ünï", fd("é", schema.Simple("int32"))))
	add("readonly-next-to-NewS", &schema.Def{Kind: "struct", Name: "Sss", ReadOnly: true, Fields: []schema.Field{fd("a", schema.Simple("int32"))}}, st("NewSss", fd("b", schema.Simple("int32"))))
	add("const-and-type-share-name", &schema.Def{Kind: "const", Name: "Thing", CType: "int32", Lit: "1"}, st("Thing", fd("b", schema.Simple("int32"))))
	add("string-const-unknown-escape", &schema.Def{Kind: "const", Name: "esc", CType: "string", Lit: `"a\qb"`})
	add("enum-option-vs-type", &schema.Def{Kind: "enum", Name: "Color", Options: []schema.Option{{Name: "Red", Lit: "1"}}}, st("Color_Red", fd("b", schema.Simple("int32"))))
	add("message-field-vs-getter", &schema.Def{Kind: "struct", Name: "Rec1", ReadOnly: true, Fields: []schema.Field{fd("a", schema.Simple("int32")), fd("GetA", schema.Simple("int32"))}})
	add("date-only-as-map-key", st("Rec1", fd("m", schema.MapOf("date", schema.Simple("int32")))))
	add("two-maps-in-struct", st("Rec1", fd("m1", schema.ArrayOf(schema.MapOf("string", schema.Simple("int32")))), fd("m2", schema.MapOf("string", schema.Simple("int32"))), fd("m3", schema.MapOf("int32", schema.Simple("string")))))
	return out
}

func runC12(args []string) {
	r := core.NewRun("C12", "exploration")
	r.Rule = "every cell of the systematic matrix (30 element kinds x 11 type shapes x 6 contexts, each as its own schema) under the default options, a fifth of the cells under the " +
		"7 other rows of a pairwise covering array of the 5 options (thorough: all cells x 8 rows, and a sample under all 32), seeded random schemas and a naming-hazard family " +
		"are put through the real ReadFile+Generate (child process); whatever is accepted is compiled with the real Go compiler against /repo's bebop and iohelp " +
		"(the emitted 'var _ bebop.Record = &T{}' assertions are part of the compiled text). distinct_nontrivial = distinct (cell or schema, option set) pairs accepted by the generator."
	r.Assume = []string{"go build is the oracle for 'parses and type-checks'"}
	bin, err := buildWorker("feworker")
	if err != nil {
		fatalSetup(r, err)
	}
	rng := rand.New(rand.NewSource(r.Seed))
	var pkgs []*GenPkg
	n := 0
	addPkg := func(label string, s *schema.Schema, o Opts, cell *schema.Cell) {
		n++
		pkgs = append(pkgs, &GenPkg{Name: fmt.Sprintf("p%05d", n), Label: label, S: s, Opts: o, Cell: cell})
	}
	cells := schema.Matrix()
	pw := pairwiseOpts()
	for i := range cells {
		c := &cells[i]
		addPkg("cell/"+c.Key(), c.S, Opts{}, c)
		for j, o := range pw[1:] {
			if r.Thorough() || (i+j)%5 == 0 {
				addPkg("cell/"+c.Key(), c.S, o, c)
			}
		}
	}
	if r.Thorough() {
		for i := 0; i < len(cells); i += 7 {
			for _, o := range allOpts() {
				addPkg("cell/"+cells[i].Key(), cells[i].S, o, &cells[i])
			}
		}
	}
	nrand := 60
	if r.Thorough() {
		nrand = 600
	}
	for i := 0; i < nrand; i++ {
		g := &schema.Gen{R: rng, Cfg: schema.GenCfg{Comments: true, Attrs: true, Consts: true, MaxDefs: 8, MaxDepth: 3}}
		s := g.Random()
		addPkg(fmt.Sprintf("random/%d/%d", r.Seed, i), s, pw[i%len(pw)], nil)
	}
	for _, n := range schema.ConstructFamily() {
		if !hasImport(n.S) {
			addPkg(n.Name, n.S, pw[len(pkgs)%len(pw)], nil)
		}
	}
	for i, n := range schema.ExtremesFamily() {
		addPkg(n.Name, n.S, pw[i%len(pw)], nil)
		addPkg(n.Name, n.S, pw[(i+3)%len(pw)], nil)
	}
	for _, h := range hazardFamily() {
		for _, o := range []Opts{{}, {Private: true}, {Private: true, Pointers: true, Unsafe: true}} {
			addPkg(h.Name, h.S, o, nil)
		}
	}
	mod, err := newMod("c12")
	if err != nil {
		fatalSetup(r, err)
	}
	// separate-mode import sets: imported enum/struct/message/union used bare, in arrays, in maps,
	// in message fields and in union members, the application package under every option row
	for _, ip := range importSets(mod, "p9", 0, pw) {
		ip.Label += "/" + ip.Opts.String()
		pkgs = append(pkgs, ip)
	}
	generateAll(bin, pkgs, mod)
	if err := mod.compile(pkgs); err != nil {
		r.Inconclusive("go build: " + core.Short(err.Error(), 200))
	}
	sampled := 0
	rejected := 0
	for _, p := range pkgs {
		fam := strings.SplitN(p.Label, "/", 2)[0]
		loc := map[string]string{"family": fam, "opts": p.Opts.String()}
		if p.Cell != nil {
			loc["elem"], loc["shape"], loc["ctx"] = p.Cell.Elem, p.Cell.Shape, p.Cell.Ctx
			loc["elemkind"] = strings.SplitN(p.Cell.Elem, ":", 2)[0]
			if schema.IsPrimitive(p.Cell.Elem) {
				loc["elemkind"] = "prim"
			}
		} else {
			loc["schema"] = p.Label
		}
		detail := map[string]any{"origin": p.Label, "options": p.Opts, "schema": p.Text}
		if p.GenOut != "ok" {
			r.Eval("")
			detail["outcome"] = p.GenOut
			r.Violate("generator crashed", loc, detail)
			continue
		}
		if p.ReadErr != "" || p.GenErr != "" {
			rejected++
			r.Hist("rejected by ReadFile/Generate (outside the domain)")
			if p.Cell != nil || fam == "random" || fam == "construct" || fam == "imports" || fam == "extremes" {
				// these are well-formed by construction: a rejection is reported (it would hide the cell)
				r.Eval("")
				detail["error"] = p.ReadErr + p.GenErr
				loc["error"] = errClass(p.ReadErr + p.GenErr)
				r.Violate("well-formed schema rejected (cell not observable)", loc, detail)
			}
			continue
		}
		r.Eval(p.Label + "@" + p.Opts.String())
		if p.BuildErr != "" {
			loc["error"] = errClassGo(p.BuildErr)
			detail["compiler"] = p.BuildErr
			r.Violate("generated code does not compile", loc, detail)
			continue
		}
		r.Hist("compiled")
		if sampled < 4 && p.Cell != nil && len(pkgs)%7 == 3-sampled%2 || (sampled < 4 && fam == "random" && len(p.Text) < 500) {
			sampled++
			r.Sample(map[string]any{"origin": p.Label, "options": p.Opts.String(), "schema": core.Short(p.Text, 400), "generated_lines": strings.Count(p.Src, "\n"), "compiled": true})
		}
	}
	r.Set("packages", len(pkgs))
	r.Set("matrix_cells", len(cells))
	finish(r)
}
