package main

import (
	"encoding/hex"
	"fmt"
	"strings"
	"sync"

	"verif/harness/codec"
	"verif/harness/core"
)

type cutsPost struct {
	N        int               `json:"n"`
	From     int               `json:"from"`
	Codes    string            `json:"codes"`
	Detail   map[string]decRes `json:"detail"`
	MaxAlloc uint64            `json:"max_alloc"`
	HarnessE string            `json:"harness_error"`
}

// runCuts sweeps cut points [0,n) of one encoding through a child; cuts that kill the child
// are reported in dead and the sweep continues around them.
func runCuts(ch *core.Child, item map[string]any, n int) (codes []byte, detail map[int]decRes, dead map[int]string) {
	codes = make([]byte, n)
	for i := range codes {
		codes[i] = '?'
	}
	detail = map[int]decRes{}
	dead = map[int]string{}
	type span struct{ from, to int }
	todo := []span{{0, n}}
	for len(todo) > 0 {
		sp := todo[0]
		todo = todo[1:]
		if sp.from >= sp.to {
			continue
		}
		it := map[string]any{}
		for k, v := range item {
			it[k] = v
		}
		it["from"], it["to"] = sp.from, sp.to
		res := ch.Do(it)
		var p cutsPost
		if postOf(res, &p) {
			for i := 0; i < len(p.Codes) && sp.from+i < n; i++ {
				codes[sp.from+i] = p.Codes[i]
			}
			for k, d := range p.Detail {
				var ki int
				fmt.Sscan(k, &ki)
				detail[ki] = d
			}
			continue
		}
		k := res.LastSub
		if k < sp.from {
			k = sp.from
		}
		dead[k] = res.Outcome + ": " + core.FatalCause(res.Stderr)
		codes[k] = 'D'
		// redo what came before the fatal cut (its results were lost with the process) and go on after it
		todo = append([]span{{sp.from, k}, {k + 1, sp.to}}, todo...)
		if len(dead) > 8 {
			break
		}
	}
	return
}

// allocBound is the line above which an allocation counts as out of proportion to the input.
func allocBound(inputLen int) uint64 { return 64<<10 + 1024*uint64(inputLen) }

// encodeValues returns up to n (value, EncodeBebop bytes) pairs of a type, chosen to be distinct encodings.
type encVal struct {
	V any
	B []byte
}

func encodeValues(ch *core.Child, t *CType, vals []any) []encVal {
	var out []encVal
	seen := map[string]bool{}
	for _, v := range vals {
		var er encRes
		res := ch.Do(map[string]any{"op": "enc", "pkg": t.Pkg.Name, "type": t.Def.Name, "val": v})
		if !postOf(res, &er) || er.FillErr != "" || er.HarnessE != "" || er.EncodeO != "ok" || er.EncodeErr != "" {
			continue
		}
		if seen[er.Encode] {
			continue
		}
		seen[er.Encode] = true
		b, _ := hex.DecodeString(er.Encode)
		out = append(out, encVal{v, b})
	}
	return out
}

// roleAt names the wire role of the byte at offset k of the reference encoding of v.
func roleAt(t *CType, v any, k int) string {
	_, roles, err := t.Ctx.EncodeRecord(t.Def.Name, v)
	if err != nil || k >= len(roles) {
		return "?"
	}
	return roles[k].Kind
}

func rolesOf(t *CType, v any) []codec.Role {
	_, roles, _ := t.Ctx.EncodeRecord(t.Def.Name, v)
	return roles
}

func siteTop(site []string) string {
	if len(site) == 0 {
		return ""
	}
	s := site[0]
	if i := strings.IndexByte(s, ' '); i >= 0 {
		s = s[:i]
	}
	if i := strings.LastIndexByte(s, '.'); i >= 0 {
		s = s[i+1:]
	}
	return s
}

var sampleMu sync.Mutex

// pickRich chooses n of the candidate encodings for the expensive sweeps: the first one
// (every field present) and then, greedily, the one that adds the most wire features not
// yet covered — role kinds, and per length/count prefix whether it announces 0, 1 or
// several elements — shorter encodings first among equals. Taking simply the first n distinct
// encodings left message fields with multi-entry maps and arrays out of the fault sweeps.
// pickHist, when set, receives one line per wire feature of every value chosen by pickRich.
var pickHist func(string)

func pickRich(t *CType, evs []encVal, n int) []encVal {
	if len(evs) <= n {
		return evs
	}
	feats := make([]map[string]bool, len(evs))
	for i, ev := range evs {
		f := map[string]bool{}
		roles := rolesOf(t, ev.V)
		for k := 0; k < len(roles) && k < len(ev.B); k++ {
			kind := roles[k].Kind
			f[kind] = true
			if (kind == "array.count" || kind == "map.count" || kind == "string.len") && k+3 < len(ev.B) && k+3 < len(roles) && roles[k+3].Kind == kind {
				c := uint32(ev.B[k]) | uint32(ev.B[k+1])<<8 | uint32(ev.B[k+2])<<16 | uint32(ev.B[k+3])<<24
				switch {
				case c == 0:
					f[kind+"=0"] = true
				case c == 1:
					f[kind+"=1"] = true
				case c < 16:
					f[kind+">=2"] = true
				default:
					f[kind+">=16"] = true
				}
				f[kind+"@"+roles[k].Path+fmt.Sprint(c >= 2)] = true
				k += 3
			}
		}
		feats[i] = f
	}
	covered := map[string]bool{}
	used := make([]bool, len(evs))
	var out []encVal
	take := func(i int) {
		used[i] = true
		out = append(out, evs[i])
		if pickHist != nil {
			for k := range feats[i] {
				if strings.Contains(k, "=") && !strings.Contains(k, "@") {
					pickHist("swept value announces " + k + " (" + t.Def.Kind + ")")
				}
			}
		}
		for k := range feats[i] {
			covered[k] = true
		}
	}
	take(0)
	for len(out) < n {
		best, bestGain := -1, -1
		for i := range evs {
			if used[i] {
				continue
			}
			gain := 0
			for k := range feats[i] {
				if !covered[k] {
					gain++
				}
			}
			if gain > bestGain || (gain == bestGain && len(evs[i].B) < len(evs[best].B)) {
				best, bestGain = i, gain
			}
		}
		if best < 0 {
			break
		}
		take(best)
	}
	return out
}
