package main

import (
	"encoding/hex"
	"encoding/json"
	"regexp"
	"runtime"
	"sync"
	"time"

	"verif/harness/core"
	"verif/harness/model"
)

// rfRes mirrors feworker's rfResult.
type rfRes struct {
	Outcome  string      `json:"o"`
	Site     []string    `json:"site"`
	Err      string      `json:"err"`
	HasErr   bool        `json:"e"`
	Warn     []string    `json:"warn"`
	File     *model.File `json:"file"`
	Structs  []string    `json:"structs"`
	NDefs    int         `json:"ndefs"`
	Reads    int         `json:"reads"`
	Pos      int         `json:"pos"`
	SawEnd   bool        `json:"saw_end"`
	AfterEnd int         `json:"after_end"`
	Alloc    uint64      `json:"alloc"`
}

type fmtRes struct {
	Outcome string   `json:"o"`
	Site    []string `json:"site"`
	Err     string   `json:"err"`
	HasErr  bool     `json:"e"`
	Out     string   `json:"out"`
	Writes  int      `json:"writes"`
}

type genRes struct {
	Outcome string   `json:"o"`
	Site    []string `json:"site"`
	ReadErr string   `json:"read_err"`
	Err     string   `json:"err"`
	HasErr  bool     `json:"e"`
	Out     string   `json:"out"`
	Writes  int      `json:"writes"`
	Warn    []string `json:"warn"`
}

func nproc() int {
	n := runtime.NumCPU()
	if n > 16 {
		n = 16
	}
	return n
}

func feChild(bin string) *core.Child {
	return &core.Child{Name: "feworker", Argv: []string{bin}, CPUBudget: 20 * time.Second, Env: []string{"VERIF_AS_LIMIT_MB=8192"}}
}

// feBatchRun runs op ("rf" or "fmt") over texts, sharded over children. extra is merged into
// each work item. handle is called once per text, possibly concurrently; dead reports
// sub-cases that killed the worker (outcome = fatal | cpu-budget | wall-watchdog).
func feBatchRun(bin, op string, texts [][]byte, extra map[string]any, handle func(i int, raw json.RawMessage), dead func(i int, outcome, stderr string)) {
	const shard = 1500
	nsh := (len(texts) + shard - 1) / shard
	n := nproc()
	if n > nsh {
		n = nsh
	}
	if n < 1 {
		n = 1
	}
	var wg sync.WaitGroup
	next := make(chan int)
	for w := 0; w < n; w++ {
		wg.Add(1)
		go func() {
			defer wg.Done()
			ch := feChild(bin)
			defer ch.Close()
			for s := range next {
				lo := s * shard
				hi := lo + shard
				if hi > len(texts) {
					hi = len(texts)
				}
				core.RunBatch(ch, hi-lo, func(from int) any {
					hx := make([]string, 0, hi-lo-from)
					for _, t := range texts[lo+from : hi] {
						hx = append(hx, hex.EncodeToString(t))
					}
					it := map[string]any{"op": op, "from": from, "texts": hx}
					for k, v := range extra {
						it[k] = v
					}
					return it
				}, func(i int, raw json.RawMessage) { handle(lo+i, raw) },
					func(i int, outcome, stderr string) { dead(lo+i, outcome, stderr) })
			}
		}()
	}
	for s := 0; s < nsh; s++ {
		next <- s
	}
	close(next)
	wg.Wait()
}

// feOne sends one non-batch item (gen/val) to a child and decodes the post payload.
func feOne(ch *core.Child, item map[string]any, out any) (string, string) {
	res := ch.Do(item)
	if res.Outcome != "post" {
		return res.Outcome, res.Stderr
	}
	var p struct {
		R json.RawMessage `json:"r"`
	}
	json.Unmarshal(res.Post, &p)
	json.Unmarshal(p.R, out)
	return "post", ""
}

func hexDecode(s string) ([]byte, error) { return hex.DecodeString(s) }

func jsonUnmarshal(b []byte, v any) error { return json.Unmarshal(b, v) }

var regexpBraces = regexp.MustCompile(`\{[^}]*\}`)
