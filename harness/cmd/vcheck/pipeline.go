package main

import (
	"encoding/hex"
	"fmt"
	"go/ast"
	"go/parser"
	"go/token"
	"os"
	"os/exec"
	"path/filepath"
	"regexp"
	"strings"
	"sync"
	"unicode"

	"verif/harness/core"
	"verif/harness/schema"
)

// Opts are the five generator options of C09.
type Opts struct {
	Pointers, Private, Tags, Unsafe, Shared bool
}

func (o Opts) String() string {
	b := func(x bool, s string) string {
		if x {
			return s
		}
		return "-"
	}
	return b(o.Pointers, "P") + b(o.Private, "p") + b(o.Tags, "T") + b(o.Unsafe, "U") + b(o.Shared, "S")
}

func (o Opts) settings(pkg string) map[string]any {
	return map[string]any{"package": pkg, "combined": true, "pointers": o.Pointers, "private": o.Private, "tags": o.Tags, "unsafe": o.Unsafe, "shared": o.Shared}
}

func allOpts() []Opts {
	var out []Opts
	for m := 0; m < 32; m++ {
		out = append(out, Opts{m&1 != 0, m&2 != 0, m&4 != 0, m&8 != 0, m&16 != 0})
	}
	return out
}

// pairwiseOpts is an 8-row covering array of strength 2 for 5 binary options.
func pairwiseOpts() []Opts {
	rows := [][5]int{{0, 0, 0, 0, 0}, {1, 1, 1, 1, 1}, {0, 0, 1, 1, 1}, {1, 1, 0, 0, 0}, {0, 1, 0, 1, 0}, {1, 0, 1, 0, 1}, {0, 1, 1, 0, 1}, {1, 0, 0, 1, 0}}
	var out []Opts
	for _, r := range rows {
		out = append(out, Opts{r[0] == 1, r[1] == 1, r[2] == 1, r[3] == 1, r[4] == 1})
	}
	return out
}

// GenPkg is one schema x option set compiled (or not) into a Go package.
type GenPkg struct {
	Name     string
	Label    string // human-readable origin (cell key, schema name)
	S        *schema.Schema
	Text     string
	Opts     Opts
	Src      string
	ReadErr  string
	GenErr   string
	GenOut   string // outcome of the generate call (ok | panic:... | fatal...)
	BuildErr string
	Cell     *schema.Cell
	// separate-mode import sets: the schema text lives in <module>/<Name>/schema.bop and is
	// generated from that path; CtxS is the schema with the imported definitions merged in
	// (what the reference codec needs), S holds this package's own definitions.
	Separate bool
	CtxS     *schema.Schema
}

func (p *GenPkg) OK() bool {
	return p.GenOut == "ok" && p.ReadErr == "" && p.GenErr == "" && p.BuildErr == ""
}

func expose(name string, private bool) string {
	if name == "" {
		return ""
	}
	r := []rune(name)
	if private {
		r[0] = unicode.ToLower(r[0])
	} else {
		r[0] = unicode.ToUpper(r[0])
	}
	return string(r)
}

// generateAll runs the real ReadFile+Generate for every package (in feworker children).
func generateAll(bin string, pkgs []*GenPkg, mods ...*modDir) {
	core.Pool(nproc(), func(int) *core.Child { return feChild(bin) }, len(pkgs), func(i int) any {
		p := pkgs[i]
		if p.Text == "" {
			p.Text = schema.Print(p.S, schema.Layouts[0])
		}
		if p.Separate && len(mods) > 0 {
			st := p.Opts.settings(p.Name)
			st["combined"] = false
			return map[string]any{"op": "gen", "path": filepath.Join(mods[0].dir, p.Name, "schema.bop"), "settings": st}
		}
		return map[string]any{"op": "gen", "text": hex.EncodeToString([]byte(p.Text)), "settings": p.Opts.settings(p.Name)}
	}, func(i int, ch *core.Child, res core.Result) {
		p := pkgs[i]
		if res.Outcome != "post" {
			p.GenOut = res.Outcome + ": " + core.FatalCause(res.Stderr)
			return
		}
		var x struct {
			R genRes `json:"r"`
		}
		jsonUnmarshal(res.Post, &x)
		p.GenOut = x.R.Outcome
		p.ReadErr = x.R.ReadErr
		if x.R.HasErr {
			p.GenErr = x.R.Err
		}
		p.Src = x.R.Out
	})
}

type modDir struct {
	dir string
}

func newMod(name string) (*modDir, error) {
	dir := filepath.Join(work(), name)
	if err := os.MkdirAll(dir, 0o755); err != nil {
		return nil, err
	}
	gomod := "module vgen\n\ngo 1.21\n\nrequire (\n\tgithub.com/200sc/bebop v0.0.0\n\tverif/harness v0.0.0\n)\n\n" +
		"replace github.com/200sc/bebop => " + core.Repo() + "\n\nreplace verif/harness => " + filepath.Join(core.Root(), "harness") + "\n"
	if err := os.WriteFile(filepath.Join(dir, "go.mod"), []byte(gomod), 0o644); err != nil {
		return nil, err
	}
	if b, err := os.ReadFile(filepath.Join(core.Repo(), "go.sum")); err == nil {
		os.WriteFile(filepath.Join(dir, "go.sum"), b, 0o644)
	}
	return &modDir{dir: dir}, nil
}

var pkgHdr = regexp.MustCompile(`^# vgen/(\S+)`)

// compile writes every generated source into its own package directory and runs the real
// compiler over all of them; BuildErr is set for packages that do not build.
func (m *modDir) compile(pkgs []*GenPkg, flags ...string) error {
	byName := map[string]*GenPkg{}
	var want []string
	for _, p := range pkgs {
		if p.GenOut != "ok" || p.ReadErr != "" || p.GenErr != "" {
			continue
		}
		d := filepath.Join(m.dir, p.Name)
		os.MkdirAll(d, 0o755)
		if err := os.WriteFile(filepath.Join(d, "gen.go"), []byte(p.Src), 0o644); err != nil {
			return err
		}
		byName[p.Name] = p
		want = append(want, "./"+p.Name)
	}
	if len(want) == 0 {
		return nil
	}
	// chunk the package list to keep command lines and memory bounded
	var mu sync.Mutex
	var firstErr error
	const chunk = 400
	for i := 0; i < len(want); i += chunk {
		end := i + chunk
		if end > len(want) {
			end = len(want)
		}
		args := append([]string{"build", "-tags", "verif"}, flags...)
		args = append(args, want[i:end]...)
		cmd := exec.Command("go", args...)
		cmd.Dir = m.dir
		out, err := cmd.CombinedOutput()
		if err == nil {
			continue
		}
		cur := ""
		sawPkg := false
		for _, ln := range strings.Split(string(out), "\n") {
			if mm := pkgHdr.FindStringSubmatch(ln); mm != nil {
				cur = strings.TrimSuffix(mm[1], " [vgen/"+mm[1]+"]")
				sawPkg = true
				continue
			}
			if cur != "" && strings.TrimSpace(ln) != "" {
				if p := byName[cur]; p != nil {
					mu.Lock()
					if len(p.BuildErr) < 1500 {
						p.BuildErr += ln + "\n"
					}
					mu.Unlock()
				}
			}
		}
		if !sawPkg && firstErr == nil {
			firstErr = fmt.Errorf("go build failed without per-package errors: %s", core.Short(string(out), 600))
		}
	}
	return firstErr
}

// recordNames lists every record type (incl. union members) of a schema.
func recordNames(s *schema.Schema) []string {
	var out []string
	for _, d := range s.All() {
		switch d.Kind {
		case "struct", "message", "union":
			out = append(out, d.Name)
		}
	}
	return out
}

func goConstExpr(name string, ctype string) string {
	switch ctype {
	case "byte", "uint8", "uint16", "int16", "uint32", "int32", "uint64", "int64", "float32", "float64":
		gt := ctype
		if gt == "byte" {
			gt = "uint8"
		}
		return "driver.ConstInfo(" + gt + "(" + name + "))"
	}
	return "driver.ConstInfo(" + name + ")"
}

// declaredNames returns the top-level identifiers a Go source declares.
func declaredNames(src string) map[string]bool {
	out := map[string]bool{}
	fset := token.NewFileSet()
	f, err := parser.ParseFile(fset, "gen.go", src, 0)
	if err != nil {
		return out
	}
	for _, d := range f.Decls {
		switch x := d.(type) {
		case *ast.FuncDecl:
			if x.Recv == nil {
				out[x.Name.Name] = true
			}
		case *ast.GenDecl:
			for _, sp := range x.Specs {
				switch y := sp.(type) {
				case *ast.TypeSpec:
					out[y.Name.Name] = true
				case *ast.ValueSpec:
					for _, n := range y.Names {
						out[n.Name] = true
					}
				}
			}
		}
	}
	return out
}

// registrySource writes the registry placed inside a generated package. Constants the
// generated source does not declare are left out (the deciders then report them missing)
// instead of breaking the driver build.
func registrySource(p *GenPkg) string {
	var sb strings.Builder
	priv := p.Opts.Private
	have := declaredNames(p.Src)
	recs := recordNames(p.S)
	sb.WriteString("package " + p.Name + "\n\nimport (\n")
	if len(recs) > 0 {
		sb.WriteString("\t\"github.com/200sc/bebop\"\n\t\"github.com/200sc/bebop/iohelp\"\n")
	}
	sb.WriteString("\t\"verif/harness/driver\"\n)\n\nfunc init() {\n")
	for _, n := range recs {
		T := expose(n, priv)
		mk := expose("Make", priv) + T
		must := expose("MustMake", priv) + T + "FromBytes"
		sb.WriteString(fmt.Sprintf("\tdriver.Register(%q, %q, driver.TypeInfo{\n", p.Name, n))
		sb.WriteString(fmt.Sprintf("\t\tNew: func() bebop.Record { return &%s{} },\n", T))
		sb.WriteString(fmt.Sprintf("\t\tMake: func(r *iohelp.ErrorReader) (bebop.Record, error) { v, err := %s(r); return &v, err },\n", mk))
		sb.WriteString(fmt.Sprintf("\t\tFromBytes: func(b []byte) (bebop.Record, error) { v, err := %sFromBytes(b); return &v, err },\n", mk))
		if p.Opts.Unsafe {
			sb.WriteString(fmt.Sprintf("\t\tMustFromBytes: func(b []byte) bebop.Record { v := %s(b); return &v },\n", must))
		}
		sb.WriteString("\t})\n")
	}
	for _, d := range p.S.Defs {
		switch d.Kind {
		case "const":
			n := expose(d.Name, priv)
			if !have[n] {
				continue
			}
			sb.WriteString(fmt.Sprintf("\tdriver.RegisterConst(%q, %q, %s)\n", p.Name, "const:"+d.Name, goConstExpr(n, d.CType)))
		case "enum":
			T := expose(d.Name, priv)
			if !have[T] {
				continue
			}
			sb.WriteString(fmt.Sprintf("\tdriver.RegisterConst(%q, %q, driver.ConstInfo(%s(0)))\n", p.Name, "enumtype:"+d.Name, T))
			for _, o := range d.Options {
				if !have[T+"_"+o.Name] {
					continue
				}
				sb.WriteString(fmt.Sprintf("\tdriver.RegisterConst(%q, %q, driver.ConstInfo(%s_%s))\n", p.Name, "enum:"+d.Name+"."+o.Name, T, o.Name))
			}
		}
	}
	for _, d := range p.S.Defs {
		if d.OpCode != nil && (d.Kind == "struct" || d.Kind == "message" || d.Kind == "union") && have[expose(d.Name, priv)+"OpCode"] {
			sb.WriteString(fmt.Sprintf("\tdriver.RegisterConst(%q, %q, driver.ConstInfo(uint64(%sOpCode)))\n", p.Name, "opcode:"+d.Name, expose(d.Name, priv)))
		}
	}
	sb.WriteString("}\n")
	return sb.String()
}

// buildDriver adds registries to the packages that compiled and links the driver.
func (m *modDir) buildDriver(pkgs []*GenPkg, out string, flags ...string) (string, error) {
	var imps []string
	for _, p := range pkgs {
		if !p.OK() {
			continue
		}
		d := filepath.Join(m.dir, p.Name)
		if err := os.WriteFile(filepath.Join(d, "verif_registry.go"), []byte(registrySource(p)), 0o644); err != nil {
			return "", err
		}
		imps = append(imps, p.Name)
	}
	if len(imps) == 0 {
		return "", fmt.Errorf("no package compiled")
	}
	var sb strings.Builder
	sb.WriteString("package main\n\nimport (\n\t\"verif/harness/driver\"\n")
	for _, n := range imps {
		sb.WriteString(fmt.Sprintf("\t_ \"vgen/%s\"\n", n))
	}
	sb.WriteString(")\n\nfunc main() { driver.Main() }\n")
	dd := filepath.Join(m.dir, "cmd", "driver")
	os.MkdirAll(dd, 0o755)
	if err := os.WriteFile(filepath.Join(dd, "main.go"), []byte(sb.String()), 0o644); err != nil {
		return "", err
	}
	bin := filepath.Join(m.dir, out)
	args := append([]string{"build", "-tags", "verif"}, flags...)
	args = append(args, "-o", bin, "./cmd/driver")
	cmd := exec.Command("go", args...)
	cmd.Dir = m.dir
	b, err := cmd.CombinedOutput()
	if err != nil {
		return "", fmt.Errorf("driver build failed: %v\n%s", err, core.Short(string(b), 3000))
	}
	return bin, nil
}

// importSets builds separate-mode import sets: one library package and application
// packages that use its enum, struct, message and union in the given shapes. Names start at
// n0+1; the files are written into the module so that Generate can resolve the imports.
func importSets(m *modDir, prefix string, n0 int, appOpts []Opts) []*GenPkg {
	var out []*GenPkg
	n := n0
	fd := func(name string, t schema.Type) schema.Field { return schema.Field{Name: name, Type: t} }
	mfd := func(i int, name string, t schema.Type) schema.Field {
		return schema.Field{Name: name, Type: t, Index: i}
	}
	libDefs := func() []*schema.Def {
		return []*schema.Def{
			{Kind: "enum", Name: "LibKind", Base: "uint16", Options: []schema.Option{{Name: "OptA", Lit: "1"}, {Name: "OptB", Lit: "513"}}},
			{Kind: "enum", Name: "LibWide", Base: "int64", Options: []schema.Option{{Name: "OptA", Lit: "-5"}, {Name: "OptB", Lit: "4294967296"}}},
			{Kind: "struct", Name: "LibPoint", Fields: []schema.Field{fd("x", schema.Simple("int32")), fd("label", schema.Simple("string"))}},
			{Kind: "message", Name: "LibMsg", Fields: []schema.Field{mfd(1, "a", schema.Simple("int64")), mfd(2, "k", schema.Simple("LibKind"))}},
			{Kind: "union", Name: "LibUnion", Branches: []schema.Branch{
				{Index: 1, Def: &schema.Def{Kind: "struct", Name: "LibUa", Fields: []schema.Field{fd("p", schema.Simple("LibPoint"))}}},
				{Index: 2, Def: &schema.Def{Kind: "message", Name: "LibUb", Fields: []schema.Field{mfd(1, "s", schema.Simple("string"))}}}}},
		}
	}
	tail := fd("tail", schema.Simple("int32"))
	apps := []struct {
		name string
		defs []*schema.Def
	}{
		{"bare", []*schema.Def{{Kind: "struct", Name: "AppBare", Fields: []schema.Field{fd("lead", schema.Simple("byte")), fd("e", schema.Simple("LibKind")), fd("w", schema.Simple("LibWide")),
			fd("s", schema.Simple("LibPoint")), fd("m", schema.Simple("LibMsg")), fd("u", schema.Simple("LibUnion")), tail}}}},
		{"enum-last", []*schema.Def{{Kind: "struct", Name: "AppEnumLast", Fields: []schema.Field{fd("lead", schema.Simple("byte")), fd("e", schema.Simple("LibWide"))}},
			{Kind: "message", Name: "AppEnumMsg", Fields: []schema.Field{mfd(1, "e", schema.Simple("LibKind")), mfd(2, "w", schema.Simple("LibWide"))}}}},
		{"arrays", []*schema.Def{{Kind: "struct", Name: "AppArr", Fields: []schema.Field{fd("es", schema.ArrayOf(schema.Simple("LibKind"))), fd("ss", schema.ArrayOf(schema.Simple("LibPoint"))),
			fd("ms", schema.ArrayOf(schema.Simple("LibMsg"))), fd("us", schema.ArrayOf(schema.Simple("LibUnion"))), tail}}}},
		{"maps", []*schema.Def{{Kind: "struct", Name: "AppMap", Fields: []schema.Field{fd("me", schema.MapOf("string", schema.Simple("LibKind"))), fd("ms", schema.MapOf("string", schema.Simple("LibPoint"))),
			fd("mm", schema.MapOf("uint8", schema.ArrayOf(schema.Simple("LibMsg")))), tail}}}},
		{"message", []*schema.Def{{Kind: "message", Name: "AppMsg", Fields: []schema.Field{mfd(1, "e", schema.Simple("LibKind")), mfd(2, "s", schema.Simple("LibPoint")), mfd(3, "ss", schema.ArrayOf(schema.Simple("LibPoint"))),
			mfd(4, "mu", schema.MapOf("string", schema.Simple("LibUnion"))), mfd(5, "tail", schema.Simple("int32"))}}}},
		{"union", []*schema.Def{{Kind: "union", Name: "AppUnion", Branches: []schema.Branch{
			{Index: 1, Def: &schema.Def{Kind: "struct", Name: "AppUa", Fields: []schema.Field{fd("s", schema.Simple("LibPoint")), fd("e", schema.Simple("LibKind"))}}},
			{Index: 2, Def: &schema.Def{Kind: "message", Name: "AppUb", Fields: []schema.Field{mfd(1, "m", schema.Simple("LibMsg"))}}}}}}},
	}
	for _, o := range appOpts {
		n++
		libName := fmt.Sprintf("%s%04d", prefix, n)
		lib := &schema.Schema{Defs: append([]*schema.Def{{Kind: "const", Name: "go_package", CType: "string", Lit: fmt.Sprintf("%q", "vgen/"+libName)}}, libDefs()...)}
		lp := &GenPkg{Name: libName, Label: "imports/lib", S: lib, CtxS: lib, Opts: Opts{Unsafe: o.Unsafe}, Separate: true}
		lp.Text = schema.Print(lib, schema.Layouts[0])
		out = append(out, lp)
		for _, a := range apps {
			n++
			name := fmt.Sprintf("%s%04d", prefix, n)
			own := &schema.Schema{Defs: append([]*schema.Def{{Kind: "import", Path: "../" + libName + "/schema.bop"},
				{Kind: "const", Name: "go_package", CType: "string", Lit: fmt.Sprintf("%q", "vgen/"+name)}}, a.defs...)}
			merged := &schema.Schema{Defs: append(append([]*schema.Def{}, libDefs()...), a.defs...)}
			ap := &GenPkg{Name: name, Label: "imports/app-" + a.name, S: &schema.Schema{Defs: a.defs}, CtxS: merged, Opts: o, Separate: true}
			ap.Text = schema.Print(own, schema.Layouts[0])
			out = append(out, ap)
		}
	}
	for _, p := range out {
		d := filepath.Join(m.dir, p.Name)
		os.MkdirAll(d, 0o755)
		os.WriteFile(filepath.Join(d, "schema.bop"), []byte(p.Text), 0o644)
	}
	return out
}
