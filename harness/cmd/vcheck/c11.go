package main

import (
	"encoding/json"
	"fmt"
	"math/rand"
	"regexp"
	"sort"
	"strings"
	"sync"

	"verif/harness/core"
	"verif/harness/model"
	"verif/harness/schema"
)

func init() {
	checks["C11"] = runC11
	checks["C16"] = func(a []string) { runFmt("C16", a) }
	checks["C17"] = func(a []string) { runFmt("C17", a) }
}

type feCase struct {
	name   string
	layout schema.Layout
	s      *schema.Schema
	text   string
	feat   map[string]bool
	place  *schema.Placement // C16/C17: text derived by inserting a comment at a token boundary
}

// placementCases derives comment-placement texts from the default-layout print of the
// hand-built families and of part of the random schemas.
func placementCases(r *core.Run, base []feCase) []feCase {
	rng := rand.New(rand.NewSource(r.Seed*31 + 5))
	var out []feCase
	nr := 0
	for _, c := range base {
		if c.layout.Name != schema.Layouts[0].Name {
			continue
		}
		max := 40
		if strings.HasPrefix(c.name, "random") {
			nr++
			if !r.Thorough() && nr%5 != 0 {
				continue
			}
			max = 12
		}
		if r.Thorough() {
			max = 0
			if strings.HasPrefix(c.name, "random") {
				max = 100 // 5 000 random schemas: bounded per schema, the controller holds every text and parsed File
			}
		}
		if strings.HasPrefix(c.name, "big/") {
			// ≈ 2 000 insertion points x 5 forms x 14 KB of text, each with its parsed File held in
			// memory: unbounded, the 96 shifted schemas of the thorough tier alone need > 60 GB
			max = 40
		}
		for _, pl := range schema.Placements(c.text, rng, max) {
			pl := pl
			out = append(out, feCase{name: c.name + "+" + pl.Form + "@" + pl.At, layout: schema.Layout{Name: "comment-insert"}, s: c.s, text: pl.Text, feat: c.feat, place: &pl})
		}
	}
	return out
}

var attrJoinRe = regexp.MustCompile(`([;{}])\n[ \t]*\[`)
var memberJoinRe = regexp.MustCompile(`;\n[ \t]+([A-Za-z0-9])`)

type textPert struct {
	name, layout string
	f            func(string) string
}

// textPerturbations: small text-level edits that turn a printed schema into a near-language text.
func textPerturbations() []textPert {
	first := func(old, neu string) func(string) string {
		return func(t string) string { return strings.Replace(t, old, neu, 1) }
	}
	all := func(old, neu string) func(string) string {
		return func(t string) string { return strings.ReplaceAll(t, old, neu) }
	}
	return []textPert{
		{"eol-crcrlf", "crlf", all("\r\n", "\r\r\n")},
		{"eol-crcrlf-after-comments", "crlf", func(t string) string {
			lines := strings.Split(t, "\r\n")
			for i, l := range lines {
				if strings.Contains(l, "//") && i+1 < len(lines) {
					lines[i] = l + "\r"
				}
			}
			return strings.Join(lines, "\r\n")
		}},
		{"eol-lfcr", "canonical", all("\n", "\n\r")},
		{"eol-cr-only", "canonical", all("\n", "\r")},
		{"trailing-blanks", "canonical", all("\n", " \t\n")},
		{"formfeed-vtab-blanks", "canonical", all("    ", "\f\v ")},
		{"newline-after-readonly", "canonical", all("readonly ", "readonly\n")},
		{"newline-after-keyword", "canonical", func(t string) string {
			for _, k := range []string{"struct ", "message ", "enum ", "union ", "const "} {
				t = strings.ReplaceAll(t, "\n"+k, "\n"+strings.TrimSpace(k)+"\n")
				if strings.HasPrefix(t, k) {
					t = strings.TrimSpace(k) + "\n" + t[len(k):]
				}
			}
			return t
		}},
		{"newline-before-open-curly", "canonical", all(" {", "\n{")},
		{"newline-before-semicolon", "canonical", all(";", "\n;")},
		{"newline-after-arrow", "canonical", all("-> ", "->\n")},
		{"newline-before-arrow", "canonical", all(" ->", "\n->")},
		{"newline-after-equals", "canonical", all(" = ", " =\n")},
		{"newline-inside-attribute", "canonical", all("](", "]\n(")},
		{"newline-after-attribute-open", "canonical", all("[", "[\n")},
		{"newline-in-map-type", "canonical", all(", ", ",\n")},
		{"newline-before-array-suffix", "canonical", all("[]", "\n[]")},
		{"semicolon-after-close-curly", "canonical", all("}\n", "};\n")},
		{"double-semicolon", "canonical", all(";", ";;")},
		{"attribute-joins-previous-line", "canonical", func(t string) string { return attrJoinRe.ReplaceAllString(t, "$1 [") }},
		{"member-joins-previous-line", "canonical", func(t string) string { return memberJoinRe.ReplaceAllString(t, "; $1") }},
		{"first-comment-doubled-slashes", "canonical", first("//", "////")},
		{"block-comment-unterminated-star", "canonical", first("*/", "**/")},
	}
}

// perturbCases derives near-language texts from printed schemas by small text-level edits (line
// ends doubled or replaced, a line break between a keyword/attribute and what follows it, ...).
// Whether ReadFile accepts such a text is not demanded either way (C16/C17 only speak about
// accepted texts); every text it does accept is in the domain, and File(x) is compared with
// File(Format(x)) directly, as for the comment placements.
func perturbCases(r *core.Run, base []feCase) []feCase {
	perts := textPerturbations()
	var out []feCase
	nr := 0
	for _, c := range base {
		if c.place != nil {
			continue
		}
		if strings.HasPrefix(c.name, "big/") {
			continue
		}
		if strings.HasPrefix(c.name, "random") {
			nr++
			// every 4th random schema (every 8th of the ten times larger thorough corpus: the texts and
			// their parsed Files are all held in memory, see DESIGN section 7)
			every := 4
			if r.Thorough() {
				every = 8
			}
			if (nr/len(schema.Layouts))%every != 0 {
				continue
			}
		}
		for _, p := range perts {
			if c.layout.Name != p.layout {
				continue
			}
			t := p.f(c.text)
			if t == c.text {
				continue
			}
			pl := schema.Placement{Text: t, At: "whole-text", Form: "perturbed:" + p.name}
			out = append(out, feCase{name: c.name + "+" + p.name, layout: schema.Layout{Name: "perturbed"}, s: c.s, text: t, feat: c.feat, place: &pl})
		}
	}
	return out
}

// frontCorpus builds the AST x layout corpus shared by C11, C16 and C17.
func frontCorpus(r *core.Run, avoid map[string]bool) []feCase {
	var named []schema.Named
	named = append(named, schema.OrderFamily()...)
	named = append(named, schema.ConstructFamily()...)
	// identifiers outside ASCII (front end only: the generated Go is C12's naming-hazard finding)
	named = append(named, schema.Named{Name: "construct/non-ascii-identifiers", S: &schema.Schema{Defs: []*schema.Def{
		{Kind: "enum", Name: "Farbe", Options: []schema.Option{{Name: "Grün", Lit: "1"}, {Name: "Weiß", Lit: "2"}}},
		{Kind: "struct", Name: "Größe", Fields: []schema.Field{{Name: "höhe", Type: schema.Simple("int32")}, {Name: "straße", Type: schema.Simple("string")}, {Name: "f", Type: schema.Simple("Farbe")}}},
		{Kind: "message", Name: "Überschrift", Fields: []schema.Field{{Name: "größe", Type: schema.Simple("Größe"), Index: 1}, {Name: "名前", Type: schema.ArrayOf(schema.Simple("string")), Index: 2}}},
		{Kind: "union", Name: "Vereinigung", Branches: []schema.Branch{{Index: 1, Def: &schema.Def{Kind: "struct", Name: "Fläche", Fields: []schema.Field{{Name: "q", Type: schema.Simple("float64")}}}}}},
	}}})
	// schemas several read buffers long (a tokenizer reads through a 4096-byte buffer): 160
	// definitions, shifted byte by byte by the length of a leading comment so that every buffer
	// boundary falls into every kind of token at least once
	nshift := 24
	if r.Thorough() {
		nshift = 96
	}
	for k := 0; k < nshift; k++ {
		big := &schema.Schema{}
		for i := 0; i < 160; i++ {
			var d *schema.Def
			switch i % 4 {
			case 0:
				d = &schema.Def{Kind: "struct", Name: fmt.Sprintf("OriginatingStation%03d", i), Fields: []schema.Field{
					{Name: "identifierOfStation", Type: schema.Simple("guid")}, {Name: "readings", Type: schema.ArrayOf(schema.Simple("float64"))},
					{Name: "labelsByName", Type: schema.MapOf("string", schema.Simple("int32"))}}}
			case 1:
				d = &schema.Def{Kind: "message", Name: fmt.Sprintf("MeasurementBatch%03d", i), Fields: []schema.Field{
					{Name: "station", Type: schema.Simple(fmt.Sprintf("OriginatingStation%03d", i-1)), Index: 1}, {Name: "collectedAt", Type: schema.Simple("date"), Index: 2},
					{Name: "annotation", Type: schema.Simple("string"), Index: 7, Deprecated: true, DepMsg: "no longer collected"}}}
			case 2:
				d = &schema.Def{Kind: "enum", Name: fmt.Sprintf("QualityLevel%03d", i), Base: "uint16", Options: []schema.Option{
					{Name: "Unverified", Lit: "1"}, {Name: "Plausible", Lit: "0x20"}, {Name: "Confirmed", Lit: "300"}}}
			default:
				d = &schema.Def{Kind: "const", Name: fmt.Sprintf("thresholdValue%03d", i), CType: "int32", Lit: fmt.Sprint(1000 + i)}
			}
			if i == 0 {
				d.Docs = []schema.Doc{{Text: " " + strings.Repeat("s", k)}}
			}
			big.Defs = append(big.Defs, d)
		}
		named = append(named, schema.Named{Name: fmt.Sprintf("big/shift-%02d", k), S: big})
	}
	nrand := 500
	if r.Thorough() {
		nrand = 5000
	}
	rng := rand.New(rand.NewSource(r.Seed))
	for i := 0; i < nrand; i++ {
		g := &schema.Gen{R: rng, Cfg: schema.GenCfg{Imports: true, Comments: true, Attrs: true, Consts: true, MaxDefs: 7, MaxDepth: 3, Avoid: avoid}}
		named = append(named, schema.Named{Name: fmt.Sprintf("random/%d/%d", r.Seed, i), S: g.Random()})
	}
	var out []feCase
	for _, n := range named {
		feat := schema.Features(n.S)
		for _, l := range schema.Layouts {
			out = append(out, feCase{name: n.Name, layout: l, s: n.S, text: schema.Print(n.S, l), feat: feat})
		}
	}
	return out
}

var idxRe = regexp.MustCompile(`\[[^\]]*\]`)

func pathClass(diff string) string {
	p := diff
	if i := strings.Index(p, ": "); i >= 0 {
		p = p[:i]
	}
	return idxRe.ReplaceAllString(p, "[]")
}

func featList(f map[string]bool) string {
	var ks []string
	for k := range f {
		ks = append(ks, k)
	}
	sort.Strings(ks)
	return strings.Join(ks, ",")
}

func runC11(args []string) {
	r := core.NewRun("C11", "exploration")
	r.Rule = "schemas are generated as ASTs (ordered pairs/triples of 19 definition variants, one minimal schema per construct, seeded random schemas over every construct), " +
		"printed under 8 layouts (indentation, CRLF, one-line bodies, tight/wide horizontal space, array spellings, inline attributes, block docs, several definitions per line), " +
		"parsed by the real ReadFile in a child process and compared field by field with the harness's independent expected-File model. " +
		"distinct_nontrivial = distinct (schema, layout) pairs whose File has at least one definition."
	r.Assume = []string{"comment attachment and layout conventions as fixed in DESIGN Appendix A", "[flags] expressions are restricted to precedence-independent ones inside the base type"}
	bin, err := buildWorker("feworker")
	if err != nil {
		fatalSetup(r, err)
	}
	cases := frontCorpus(r, nil)
	texts := make([][]byte, len(cases))
	for i, c := range cases {
		texts[i] = []byte(c.text)
	}
	var mu sync.Mutex
	sampled := 0
	feBatchRun(bin, "rf", texts, map[string]any{"full": true}, func(i int, raw json.RawMessage) {
		c := cases[i]
		var x rfRes
		json.Unmarshal(raw, &x)
		want, ok := schema.Expected(c.s)
		if !ok {
			r.Inconclusive("generator produced an enum the model cannot evaluate")
			return
		}
		key := ""
		if len(c.s.Defs) > 0 {
			key = c.name + "@" + c.layout.Name
		}
		r.Eval(key)
		loc := map[string]string{"layout": c.layout.Name, "family": strings.SplitN(c.name, "/", 2)[0]}
		detail := map[string]any{"schema": c.name, "layout": c.layout.Name, "text": c.text, "features": featList(c.feat)}
		if x.Outcome != "ok" {
			loc["site"] = siteOf(x.Site)
			detail["outcome"] = x.Outcome
			r.Violate("well-formed text: "+strings.SplitN(x.Outcome, ":", 2)[0], loc, detail)
			return
		}
		if x.HasErr {
			loc["error"] = errClass(x.Err)
			detail["error"] = x.Err
			r.Violate("well-formed text rejected", loc, detail)
			return
		}
		var got model.File
		if x.File != nil {
			got = *x.File
		}
		if d := schema.Diff(want, got, schema.DiffOpts{IgnoreFileName: true}); d != "" {
			loc["path"] = pathClass(d)
			detail["diff(expected vs got)"] = d
			r.Violate("File differs from the schema text", loc, detail)
			return
		}
		mu.Lock()
		if sampled < 4 && strings.HasPrefix(c.name, "random") && len(c.text) < 900 && len(c.text) > 200 {
			sampled++
			r.Sample(map[string]any{"schema": c.name, "layout": c.layout.Name, "text": c.text, "file_equals_model": true})
		}
		mu.Unlock()
	}, func(i int, outcome, stderr string) {
		c := cases[i]
		r.Eval("")
		if strings.HasPrefix(outcome, "wall") {
			r.Inconclusive("wall watchdog")
			return
		}
		r.Violate("well-formed text: process died or exceeded the CPU budget", map[string]string{"layout": c.layout.Name},
			map[string]any{"schema": c.name, "text": c.text, "cause": outcome + ": " + core.FatalCause(stderr)})
	})
	r.Set("layouts", len(schema.Layouts))
	r.Set("schemas", len(cases)/len(schema.Layouts))
	finish(r)
}

var numRe = regexp.MustCompile(`[0-9]+`)

func errClass(e string) string {
	e = numRe.ReplaceAllString(e, "N")
	if len(e) > 60 {
		e = e[:60]
	}
	return e
}

// ---------------------------------------------------------------------------------------
// C16 / C17

func runFmt(prop string, args []string) {
	r := core.NewRun(prop, "exploration")
	if prop == "C16" {
		r.Rule = "the C11 corpus (AST families x 8 layouts); each accepted text x is formatted by the real Format in a child process, the output is parsed by the real ReadFile " +
			"and compared with File(x) on everything except Comment/Tags; File(x) itself must equal the expected-File model so the comparison cannot be vacuous. " +
			"Added to that: texts derived from the default-layout print by inserting a block comment, a line comment or both at a token boundary (after ; { } ] , = ) -> and at line starts); " +
			"those that ReadFile accepts are in the domain and File(x) is compared with File(Format(x)) directly. " +
			"distinct_nontrivial = distinct (schema, layout) pairs with at least one definition."
	} else {
		r.Rule = "the C11 corpus (AST families x 8 layouts); for each accepted text x whose first Format succeeds, Format(Format(x)) must equal Format(x) byte for byte. " +
			"Added to that: texts derived from the default-layout print by inserting a block comment, a line comment or both at a token boundary; those that ReadFile accepts are in the domain. " +
			"distinct_nontrivial = distinct (schema, layout) pairs with at least one definition whose first Format succeeded."
	}
	r.Assume = []string{"inputs are restricted to texts ReadFile accepts"}
	bin, err := buildWorker("feworker")
	if err != nil {
		fatalSetup(r, err)
	}
	cases := frontCorpus(r, nil)
	cases = append(cases, placementCases(r, cases)...)
	cases = append(cases, perturbCases(r, cases)...)
	texts := make([][]byte, len(cases))
	for i, c := range cases {
		texts[i] = []byte(c.text)
	}
	n := len(cases)
	x := make([]*rfRes, n)
	dead := make([]string, n)
	feBatchRun(bin, "rf", texts, map[string]any{"full": true}, func(i int, raw json.RawMessage) {
		var v rfRes
		json.Unmarshal(raw, &v)
		x[i] = &v
	}, func(i int, o, se string) { dead[i] = o })
	// format pass 1
	y := make([]*fmtRes, n)
	deadF := make([]string, n)
	feBatchRun(bin, "fmt", texts, nil, func(i int, raw json.RawMessage) {
		var v fmtRes
		json.Unmarshal(raw, &v)
		y[i] = &v
	}, func(i int, o, se string) { deadF[i] = o + ": " + core.FatalCause(se) })
	ytexts := make([][]byte, n)
	for i := range cases {
		if y[i] != nil && y[i].Outcome == "ok" && !y[i].HasErr {
			b, _ := hexDecode(y[i].Out)
			ytexts[i] = b
		}
	}
	sampled := 0
	if prop == "C16" {
		ry := make([]*rfRes, n)
		feBatchRun(bin, "rf", ytexts, map[string]any{"full": true}, func(i int, raw json.RawMessage) {
			var v rfRes
			json.Unmarshal(raw, &v)
			ry[i] = &v
		}, func(i int, o, se string) {})
		for i, c := range cases {
			if x[i] == nil || x[i].Outcome != "ok" || x[i].HasErr || x[i].File == nil {
				continue // not in the domain (C11 reports those)
			}
			want, ok := schema.Expected(c.s)
			if c.place != nil {
				// an inserted comment may legitimately change what the text means (a line comment
				// swallowing the rest of a line); the text is in the domain as long as it is accepted
				if fileDefs(x[i].File) == 0 {
					continue
				}
			} else if !ok {
				continue
			} else if schema.Diff(want, *x[i].File, schema.DiffOpts{IgnoreFileName: true, IgnoreComments: true}) != "" {
				// ReadFile(x) itself is off (C11 reports that); the property still compares what
				// ReadFile makes of x with what it makes of Format(x), so the case stays in as long
				// as the File is not empty
				r.Hist("ReadFile(x) does not match the model (C11's business); compared with File(Format(x)) all the same")
				if fileDefs(x[i].File) == 0 {
					continue
				}
			}
			key := ""
			if len(c.s.Defs) > 0 {
				key = c.name + "@" + c.layout.Name
			}
			r.Eval(key)
			loc := map[string]string{"layout": c.layout.Name}
			if c.place != nil {
				loc["at"], loc["form"] = c.place.At, c.place.Form
				r.Hist("accepted derived text: " + c.place.Form + " " + c.place.At)
			}
			for _, ft := range []string{"enum.typed", "enum.flags", "import", "type.suffix_array_2d", "type.array_2d"} {
				if c.feat[ft] {
					loc[ft] = "yes"
				} else {
					loc[ft] = "no"
				}
			}
			detail := map[string]any{"schema": c.name, "layout": c.layout.Name, "text": c.text, "features": featList(c.feat)}
			if deadF[i] != "" {
				detail["cause"] = deadF[i]
				r.Violate("Format: process died or exceeded the CPU budget", loc, detail)
				continue
			}
			if y[i] == nil {
				r.Inconclusive("no format result")
				continue
			}
			if y[i].Outcome != "ok" {
				detail["outcome"] = y[i].Outcome
				loc["site"] = siteOf(y[i].Site)
				r.Violate("Format: "+strings.SplitN(y[i].Outcome, ":", 2)[0], loc, detail)
				continue
			}
			if y[i].HasErr {
				detail["error"] = y[i].Err
				r.Violate("Format returned an error on accepted input", loc, detail)
				continue
			}
			detail["formatted"] = string(ytexts[i])
			if ry[i] == nil || ry[i].Outcome != "ok" {
				r.Violate("formatted output crashes ReadFile", loc, detail)
				continue
			}
			if ry[i].HasErr {
				detail["error"] = ry[i].Err
				r.Violate("formatted output is rejected by ReadFile", loc, detail)
				continue
			}
			if d := schema.Diff(*x[i].File, *ry[i].File, schema.DiffOpts{IgnoreFileName: true, IgnoreComments: true}); d != "" {
				detail["diff(before vs after)"] = d
				loc["path"] = pathClass(d)
				r.Violate("formatted output denotes a different schema", loc, detail)
				continue
			}
			if sampled < 3 && strings.HasPrefix(c.name, "random") && len(c.text) < 700 && len(c.text) > 150 {
				sampled++
				r.Sample(map[string]any{"schema": c.name, "layout": c.layout.Name, "input": c.text, "formatted": string(ytexts[i]), "same_schema": true})
			}
		}
		finish(r)
	}
	// C17
	z := make([]*fmtRes, n)
	feBatchRun(bin, "fmt", ytexts, nil, func(i int, raw json.RawMessage) {
		var v fmtRes
		json.Unmarshal(raw, &v)
		z[i] = &v
	}, func(i int, o, se string) {})
	for i, c := range cases {
		if x[i] == nil || x[i].Outcome != "ok" || x[i].HasErr || ytexts[i] == nil {
			continue
		}
		key := ""
		if len(c.s.Defs) > 0 {
			key = c.name + "@" + c.layout.Name
		}
		r.Eval(key)
		loc := map[string]string{"layout": c.layout.Name}
		if c.place != nil {
			loc["at"], loc["form"] = c.place.At, c.place.Form
			r.Hist("accepted derived text: " + c.place.Form + " " + c.place.At)
		}
		for _, ft := range []string{"enum.typed", "enum.flags", "import", "type.suffix_array_2d", "type.array_2d"} {
			if c.feat[ft] {
				loc[ft] = "yes"
			} else {
				loc[ft] = "no"
			}
		}
		detail := map[string]any{"schema": c.name, "layout": c.layout.Name, "text": c.text, "features": featList(c.feat), "format1": string(ytexts[i])}
		if z[i] == nil || z[i].Outcome != "ok" || z[i].HasErr {
			if z[i] != nil {
				detail["outcome"] = z[i].Outcome
				detail["error"] = z[i].Err
			}
			r.Violate("second Format failed", loc, detail)
			continue
		}
		zb, _ := hexDecode(z[i].Out)
		if string(zb) != string(ytexts[i]) {
			detail["format2"] = string(zb)
			r.Violate("Format(Format(x)) != Format(x)", loc, detail)
			continue
		}
		if sampled < 3 && strings.HasPrefix(c.name, "random") && len(c.text) < 600 && len(c.text) > 150 {
			sampled++
			r.Sample(map[string]any{"schema": c.name, "layout": c.layout.Name, "input": c.text, "format1_equals_format2": true, "format1": string(ytexts[i])})
		}
	}
	finish(r)
}

func fileDefs(f *model.File) int {
	if f == nil {
		return 0
	}
	return len(f.Structs) + len(f.Messages) + len(f.Enums) + len(f.Unions) + len(f.Consts)
}
