package main

import (
	"encoding/hex"
	"fmt"
	"math/rand"
	"sync"

	"verif/harness/codec"
	"verif/harness/core"
)

func init() { checks["C05"] = runC05 }

type streamRec struct {
	t  *CType
	ev encVal
}

type sched struct {
	name string
	cfg  map[string]any
}

func fixedSchedules(rng *rand.Rand) []sched {
	rc := make([]int, 8)
	for i := range rc {
		rc[i] = 1 + rng.Intn(9)
	}
	return []sched{
		{"all-at-once", map[string]any{}},
		{"1-byte", map[string]any{"chunks": []int{1}}},
		{"2-byte", map[string]any{"chunks": []int{2}}},
		{"3-byte", map[string]any{"chunks": []int{3}}},
		{"5-byte", map[string]any{"chunks": []int{5}}},
		{"7-byte", map[string]any{"chunks": []int{7}}},
		{"random-chunks", map[string]any{"chunks": rc}},
		{"zero-reads+3", map[string]any{"chunks": []int{3}, "zero_reads": true}},
		{"eof-with-data", map[string]any{"eof_with_data": true}},
		{"eof-with-data+1", map[string]any{"chunks": []int{1}, "eof_with_data": true}},
		{"bytes.Reader", map[string]any{"kind": "bytes.Reader"}},
		{"bytes.Buffer", map[string]any{"kind": "bytes.Buffer"}},
		{"bufio(16)+3", map[string]any{"kind": "bufio", "chunks": []int{3}}},
		{"os.File", map[string]any{"kind": "file"}},
	}
}

func runC05(args []string) {
	r := core.NewRun("C05", "exploration")
	r.Rule = "codec corpus (systematic matrix + seeded random schemas); per generated package, streams of 2-8 records of mixed types are built by concatenating the real EncodeBebop outputs and decoded back-to-back by DecodeBebop from ONE metering reader " +
		"under read-fragmentation schedules: all-at-once, 1/2/3/5/7-byte chunks, seeded random chunking, (0,nil) reads between chunks, data returned together with io.EOF, and a chunk boundary at every wire-role boundary (and +-1, thorough) of the first record. " +
		"Oracle after each record: value equals the encoded one, reader position == sum of the encodings so far, Size() of the decoded value == its encoding's length; after the last record the reader stands exactly at the end. " +
		"distinct_nontrivial = distinct (stream, schedule) pairs."
	r.Assume = []string{"the history oracle is sequence equality plus byte conservation at every record boundary"}
	nrandom := 6
	perPkg := 6
	if r.Thorough() {
		nrandom = 40
		perPkg = 30
	}
	corpus, err := buildCorpus(r, corpusCfg{Opts: []Opts{{}}, Random: nrandom, Name: "c05"})
	if err != nil {
		fatalSetup(r, err)
	}
	byPkg := map[string][]*CType{}
	var order []string
	for _, t := range corpus.Types {
		if _, ok := byPkg[t.Pkg.Name]; !ok {
			order = append(order, t.Pkg.Name)
		}
		byPkg[t.Pkg.Name] = append(byPkg[t.Pkg.Name], t)
	}
	var wg sync.WaitGroup
	next := make(chan string)
	for w := 0; w < nproc(); w++ {
		wg.Add(1)
		go func() {
			defer wg.Done()
			ch := corpus.child(false)
			defer ch.Close()
			for pn := range next {
				c05Package(r, ch, byPkg[pn], perPkg)
			}
		}()
	}
	for _, pn := range order {
		next <- pn
	}
	close(next)
	wg.Wait()
	finish(r)
}

func c05Package(r *core.Run, ch *core.Child, types []*CType, nstreams int) {
	if r.Broken() {
		return
	}
	rng := rand.New(rand.NewSource(r.Seed*101 + int64(len(types[0].Pkg.Name))))
	for _, c := range types[0].Pkg.Name {
		rng.Int63()
		_ = c
	}
	// encodings of a few values per type
	var pool []streamRec
	for _, t := range types {
		vg := codec.NewVG(t.Ctx, r.Seed)
		for _, ev := range encodeValues(ch, t, vg.RecordsRich(t.Def, 4)) {
			pool = append(pool, streamRec{t, ev})
		}
	}
	if len(pool) == 0 {
		return
	}
	// every pool entry appears in at least one stream (walk the pool), then random mixes
	var streams [][]streamRec
	for i := 0; i < len(pool); i += 5 {
		end := i + 5
		if end > len(pool) {
			end = len(pool)
		}
		s := append([]streamRec{}, pool[i:end]...)
		if len(s) == 1 {
			s = append(s, pool[0])
		}
		streams = append(streams, s)
	}
	for i := 0; i < nstreams; i++ {
		n := 2 + rng.Intn(7)
		var s []streamRec
		for j := 0; j < n; j++ {
			s = append(s, pool[rng.Intn(len(pool))])
		}
		streams = append(streams, s)
	}
	for si, st := range streams {
		if r.Broken() {
			return
		}
		var data []byte
		var seq []string
		var ends []int
		for _, rec := range st {
			data = append(data, rec.ev.B...)
			seq = append(seq, rec.t.Def.Name)
			ends = append(ends, len(data))
		}
		scheds := fixedSchedules(rng)
		if si < 8 || r.Thorough() {
			// chunk boundary at every role boundary of the first record
			roles := rolesOf(st[0].t, st[0].ev.V)
			seen := map[int]bool{}
			for k := 1; k < len(roles); k++ {
				if roles[k].Kind != roles[k-1].Kind || roles[k].Path != roles[k-1].Path {
					ks := []int{k}
					if r.Thorough() {
						ks = []int{k - 1, k, k + 1}
					}
					for _, kk := range ks {
						if kk > 0 && kk < len(data) && !seen[kk] {
							seen[kk] = true
							scheds = append(scheds, sched{fmt.Sprintf("split@%d(%s)", kk, roles[k].Kind), map[string]any{"chunks": []int{kk, 0}}})
						}
					}
				}
			}
		}
		for _, sc := range scheds {
			var res struct {
				Records []struct {
					decRes
					PosAfter int `json:"pos_after"`
				} `json:"records"`
				FinalPos int    `json:"final_pos"`
				Len      int    `json:"len"`
				Reads    int    `json:"reads"`
				AfterEnd int    `json:"after_end"`
				HarnessE string `json:"harness_error"`
			}
			cr := ch.Do(map[string]any{"op": "stream", "pkg": st[0].t.Pkg.Name, "seq": seq, "hex": hex.EncodeToString(data), "reader": sc.cfg})
			key := fmt.Sprintf("%s/stream%d|%s", st[0].t.Pkg.Name, si, sc.name)
			r.Eval(key)
			loc := map[string]string{"schedule": schedClass(sc.name), "family": st[0].t.Locus()["family"]}
			detail := map[string]any{"package_origin": st[0].t.Pkg.Label, "sequence": seq, "record_ends": ends, "stream": hex.EncodeToString(data), "schedule": sc.name, "reader": sc.cfg, "schema": core.Short(st[0].t.Pkg.Text, 4000)}
			if !postOf(cr, &res) {
				if cr.Outcome == "wall-watchdog" {
					r.Inconclusive("wall watchdog")
					continue
				}
				detail["cause"] = cr.Outcome + ": " + core.FatalCause(cr.Stderr)
				r.Violate("stream: process died or exceeded the CPU budget", loc, detail)
				continue
			}
			if res.HarnessE != "" {
				r.Inconclusive("harness: " + res.HarnessE)
				continue
			}
			bad := false
			for i, rec := range st {
				l := copyLocus(loc)
				for k, v := range rec.t.Locus() {
					l[k] = v
				}
				l["position"] = "first"
				if i > 0 {
					l["position"] = "later"
				}
				detail["record_index"] = i
				detail["record_type"] = rec.t.Label
				if i >= len(res.Records) {
					r.Violate("stream: record not decoded", l, detail)
					bad = true
					break
				}
				o := res.Records[i]
				if o.Outcome != "ok" {
					l["how"] = outcomeClass(o.Outcome)
					detail["outcome"] = o.Outcome
					r.Violate("stream: decoder crashes", l, detail)
					bad = true
					break
				}
				if o.HasErr {
					detail["error"] = o.Err
					r.Violate("stream: record rejected", l, detail)
					bad = true
					break
				}
				if o.PosAfter != ends[i] {
					detail["consumed_until"] = o.PosAfter
					detail["expected_until"] = ends[i]
					if o.PosAfter > ends[i] {
						l["direction"] = "too-many"
					} else {
						l["direction"] = "too-few"
					}
					r.Violate("stream: bytes consumed differ from the record's length", l, detail)
					bad = true
					break
				}
				if d := rec.t.Ctx.EqualDef(rec.t.Def, rec.ev.V, o.Val, rec.t.Def.Name); d != "" {
					detail["diff"] = d
					r.Violate("stream: decoded record differs", l, detail)
					bad = true
					break
				}
				if o.Size != len(rec.ev.B) {
					detail["size"] = o.Size
					detail["encoding_len"] = len(rec.ev.B)
					r.Violate("stream: Size() of the decoded value differs from the bytes consumed", l, detail)
					bad = true
					break
				}
			}
			if !bad && res.FinalPos != len(data) {
				detail["final_pos"] = res.FinalPos
				r.Violate("stream: reader not at the end after the last record", loc, detail)
				bad = true
			}
			if !bad && r.NeedSample() && len(data) < 120 && (si+len(sc.name))%5 == 0 {
				r.Sample(map[string]any{"sequence": seq, "record_ends": ends, "stream": hex.EncodeToString(data), "schedule": sc.name, "reads_issued": res.Reads, "all_records_equal": true})
			}
		}
	}
}

func schedClass(n string) string {
	if len(n) > 6 && n[:6] == "split@" {
		for i := 0; i < len(n); i++ {
			if n[i] == '(' {
				return "split(" + n[i+1:]
			}
		}
	}
	return n
}
