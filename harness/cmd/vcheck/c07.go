package main

import (
	"encoding/binary"
	"encoding/hex"
	"fmt"
	"math/rand"
	"strings"
	"sync"

	"verif/harness/codec"
	"verif/harness/core"
)

func init() { checks["C07"] = runC07 }

// corruption describes one hostile input as an edit of a base encoding (kept compact: the
// inputs of a type are materialised chunk by chunk, not all at once).
type corruption struct {
	kind  string // count | tag | flip | splice | tail | random | fill | under-announce+cut
	role  string // wire role of the first corrupted byte
	note  string
	base  []byte // shared, never modified
	cut   int    // keep base[:cut] (-1: all of it)
	off   int    // overwrite at off with patch (len(patch) may be 0)
	patch []byte
	tail  []byte // appended after the (cut) base
}

func (c corruption) bytes() []byte {
	b := c.base
	if c.cut >= 0 && c.cut < len(b) {
		b = b[:c.cut]
	}
	nb := make([]byte, 0, len(b)+len(c.tail))
	nb = append(nb, b...)
	if len(c.patch) > 0 && c.off+len(c.patch) <= len(nb) {
		copy(nb[c.off:], c.patch)
	}
	return append(nb, c.tail...)
}

func (c corruption) size() int {
	n := len(c.base)
	if c.cut >= 0 && c.cut < n {
		n = c.cut
	}
	return n + len(c.tail)
}

func le32(v uint32) []byte { return []byte{byte(v), byte(v >> 8), byte(v >> 16), byte(v >> 24)} }

// prefixRuns returns the start offsets of every 4-byte length/count prefix and of every
// 1-byte tag in an encoding.
func prefixRuns(roles []codec.Role) (prefixes []int, tags []int) {
	for i := 0; i < len(roles); i++ {
		switch roles[i].Kind {
		case "msg.len", "union.len", "array.count", "map.count", "string.len":
			if i+3 < len(roles) && roles[i+3].Kind == roles[i].Kind {
				prefixes = append(prefixes, i)
				i += 3
			}
		case "msg.index", "union.disc", "msg.end":
			tags = append(tags, i)
		}
	}
	return
}

func corruptions(ev encVal, roles []codec.Role, other []byte, rng *rand.Rand, thorough bool) []corruption {
	var out []corruption
	b := ev.B
	pre, tags := prefixRuns(roles)
	for _, p := range pre {
		rem := uint32(len(b) - p - 4)
		vals := []uint32{0, rem + 1, 1 << 16, 1 << 24, 1 << 31, 1<<32 - 1}
		if thorough {
			vals = append(vals, 1, rem-1, rem, 1<<31-1, rem+2, 1<<20, 255, 1<<32-4)
		}
		orig := binary.LittleEndian.Uint32(b[p:])
		for _, v := range vals {
			if v == orig {
				continue
			}
			out = append(out, corruption{kind: "count", role: roles[p].Kind, note: fmt.Sprintf("offset %d: %d -> %d", p, orig, v), base: b, cut: -1, off: p, patch: le32(v)})
		}
	}
	// compound: a message/union length that announces LESS than what follows (records are skipped
	// by the announced length but sized by their content) together with a buffer that ends
	// somewhere behind the prefix
	for _, p := range pre {
		if roles[p].Kind != "msg.len" && roles[p].Kind != "union.len" {
			continue
		}
		orig := binary.LittleEndian.Uint32(b[p:])
		seen := map[uint32]bool{orig: true}
		for _, v := range []uint32{0, orig / 2, orig - 1} {
			if seen[v] || orig == 0 {
				continue
			}
			seen[v] = true
			cuts := []int{}
			for k := p + 4; k < len(b); k++ {
				cuts = append(cuts, k)
			}
			max := 40
			if thorough {
				max = 400
			}
			if len(cuts) > max {
				rng.Shuffle(len(cuts), func(i, j int) { cuts[i], cuts[j] = cuts[j], cuts[i] })
				cuts = cuts[:max]
			}
			for _, k := range cuts {
				out = append(out, corruption{kind: "under-announce+cut", role: roles[p].Kind, note: fmt.Sprintf("offset %d: %d -> %d, cut at %d of %d", p, orig, v, k, len(b)),
					base: b, cut: k, off: p, patch: le32(v)})
			}
		}
	}
	for _, t := range tags {
		vals := []byte{0, 1, 2, 3, 7, 127, 128, 200, 255}
		if !thorough {
			vals = []byte{0, 1, 2, 3, 128, 255}
		}
		for _, v := range vals {
			if v == b[t] {
				continue
			}
			out = append(out, corruption{kind: "tag", role: roles[t].Kind, note: fmt.Sprintf("offset %d: %d -> %d", t, b[t], v), base: b, cut: -1, off: t, patch: []byte{v}})
		}
	}
	nflip := 24
	if thorough {
		nflip = 200
	}
	for i := 0; i < nflip && i < 2*len(b); i++ {
		k := i / 2
		if len(b) > nflip/2 {
			k = rng.Intn(len(b))
		}
		nv := b[k] ^ 0x01
		if i%2 == 0 {
			nv = b[k] ^ 0xff
		}
		role := "?"
		if k < len(roles) {
			role = roles[k].Kind
		}
		out = append(out, corruption{kind: "flip", role: role, note: fmt.Sprintf("offset %d", k), base: b, cut: -1, off: k, patch: []byte{nv}})
	}
	if len(other) > 0 && len(b) > 1 {
		for i := 0; i < 4; i++ {
			k := 1 + rng.Intn(len(b)-1)
			j := rng.Intn(len(other))
			out = append(out, corruption{kind: "splice", role: roles[k].Kind, note: fmt.Sprintf("own[:%d] + other[%d:]", k, j), base: b, cut: k, tail: other[j:]})
		}
	}
	for _, n := range []int{1, 3, 8} {
		tail := make([]byte, n)
		rng.Read(tail)
		out = append(out, corruption{kind: "tail", role: "after-end", note: fmt.Sprintf("+%d random bytes", n), base: b, cut: -1, tail: tail})
	}
	return out
}

func unstructured(rng *rand.Rand, thorough bool) []corruption {
	var out []corruption
	for n := 0; n <= 16; n++ {
		out = append(out, corruption{kind: "fill", role: "n/a", note: fmt.Sprintf("%d x 00", n), cut: -1, tail: make([]byte, n)})
		ff := make([]byte, n)
		for i := range ff {
			ff[i] = 0xff
		}
		out = append(out, corruption{kind: "fill", role: "n/a", note: fmt.Sprintf("%d x ff", n), cut: -1, tail: ff})
	}
	nr := 24
	if thorough {
		nr = 200
	}
	for i := 0; i < nr; i++ {
		b := make([]byte, rng.Intn(65))
		rng.Read(b)
		if i%3 == 0 && len(b) >= 4 {
			// plausible small leading length so that parsing gets past the header
			binary.LittleEndian.PutUint32(b, uint32(rng.Intn(len(b)+4)))
		}
		out = append(out, corruption{kind: "random", role: "n/a", note: fmt.Sprintf("%d random bytes", len(b)), cut: -1, tail: b})
	}
	return out
}

func runC07(args []string) {
	r := core.NewRun("C07", "exploration")
	r.Rule = "codec corpus (systematic matrix + seeded random schemas); per record type valid encodings are corrupted structure-aware using the reference codec's per-byte role map: every length/count prefix " +
		"set to {0, remaining+1, 2^16, 2^24, 2^31, 2^32-1, ...}, every message index / union discriminator / terminator byte set to other used and unused values, payload bytes flipped, tails of other values spliced in, random tails appended, message/union lengths under-announced (0, half, -1) combined with every (sampled beyond 40) cut point behind the prefix; " +
		"plus all-0x00 / all-0xFF strings of every length <= 16 and seeded random strings of length <= 64. Each input goes to UnmarshalBebop (exact buffer) and DecodeBebop (metering reader) in driver children; " +
		"oracle: returns nil or an error; no panic, process death, runaway, CPU > 2 s; exact allocation <= 64KiB + 1024*len(input). " +
		"distinct_nontrivial = distinct (record type, decoder, corruption kind, wire role) tuples executed."
	r.Assume = []string{"MustUnmarshalBebop is exempt and never called here", "child processes run under RLIMIT_AS 6 GiB so that a multi-GiB request is a fatal error attributed to its input"}
	nv := 2
	nrandom := 6
	if r.Thorough() {
		nv = 6
		nrandom = 40
	}
	pickHist = func(k string) { r.Hist(k) }
	corpus, err := buildCorpus(r, corpusCfg{Opts: []Opts{{}}, Random: nrandom, Name: "c07"})
	if err != nil {
		fatalSetup(r, err)
	}
	total := 0
	corpus.forEachType(false, func(ch *core.Child, t *CType) {
		if r.Broken() {
			return
		}
		if t.Ctx.HasZeroSizeArrayElem(t.Def) && r.Matched("C07-zero-size-element-count") >= 4 {
			// trigger population of the known finding: a few types are enough to confirm it
			// (each hit costs a 2 s CPU-budget kill); the others are left out
			r.Hist("type with zero-wire-size array elements skipped (known-finding locus)")
			return
		}
		vg := codec.NewVG(t.Ctx, r.Seed)
		rng := rand.New(rand.NewSource(r.Seed*31 + int64(len(t.Label))*131))
		evs := pickRich(t, encodeValues(ch, t, vg.RecordsRich(t.Def, 12)), nv)
		var cs []corruption
		for i, ev := range evs {
			if len(ev.B) == 0 {
				continue
			}
			var other []byte
			if len(evs) > 1 {
				other = evs[(i+1)%len(evs)].B
			}
			cs = append(cs, corruptions(ev, rolesOf(t, ev.V), other, rng, r.Thorough())...)
		}
		cs = append(cs, unstructured(rng, r.Thorough())...)
		if t.Ctx.HasZeroSizeArrayElem(t.Def) {
			// known-finding locus: one representative input (a huge count) instead of hundreds
			var one []corruption
			for _, c := range cs {
				if c.kind == "count" && c.role == "array.count" && strings.HasSuffix(c.note, "-> 4294967295") {
					one = append(one, c)
					break
				}
			}
			cs = one
		}
		// the inputs are materialised and executed chunk by chunk (bounded by input bytes), so that
		// neither the controller nor the driver ever holds all hostile inputs of a type at once
		for lo := 0; lo < len(cs); {
			if r.Broken() {
				return
			}
			hi, bytes := lo, 0
			for hi < len(cs) && (hi == lo || (bytes+cs[hi].size() <= 1<<20 && hi-lo < 512)) {
				bytes += cs[hi].size()
				hi++
			}
			c07Chunk(r, ch, t, cs[lo:hi], &total, &sampleMu)
			lo = hi
		}
	})
	r.Set("inputs_executed", total)
	finish(r)
}

func c07Chunk(r *core.Run, ch *core.Child, t *CType, cs []corruption, totalp *int, sampleMu *sync.Mutex) {
	total := 0
	defer func() {
		sampleMu.Lock()
		*totalp += total
		sampleMu.Unlock()
	}()
	{
		var cases []decCase
		inputs := make([][]byte, len(cs))
		for i, c := range cs {
			inputs[i] = c.bytes()
			h := hex.EncodeToString(inputs[i])
			cases = append(cases, decCase{Type: t.Def.Name, Hex: h, How: "unmarshal", NoVal: true}, decCase{Type: t.Def.Name, Hex: h, How: "decode", NoVal: true})
		}
		outs := runCases(ch, t.Pkg.Name, cases)
		for i, o := range outs {
			c := cs[i/2]
			cb := inputs[i/2]
			dec := cases[i].How
			r.Eval(t.Label + "|" + dec + "|" + c.kind + "|" + c.role)
			total++
			loc := t.Locus()
			loc["decoder"], loc["corruption"], loc["role"] = dec, c.kind, c.role
			detail := map[string]any{"type": t.Def.Name, "origin": t.Label, "input": hex.EncodeToString(cb), "corruption": c.kind + ": " + c.note, "decoder": dec, "schema": t.Pkg.Text}
			if o.Outcome == "" {
				r.Inconclusive("case not executed")
				continue
			}
			if o.Outcome != "ok" {
				cls := outcomeClass(o.Outcome)
				if cls == "wall-watchdog" {
					r.Inconclusive("wall watchdog")
					continue
				}
				loc["site"] = siteTop(o.Site)
				loc["how"] = cls
				detail["outcome"] = o.Outcome
				detail["site"] = o.Site
				clause := "hostile input: " + cls
				if cls == "fatal" || cls == "cpu-budget" {
					clause = "hostile input: process died or exceeded the CPU budget"
					if strings.Contains(o.Outcome, "out of memory") || strings.Contains(o.Outcome, "cannot allocate") {
						loc["how"] = "out-of-memory"
					} else if strings.Contains(o.Outcome, "stack overflow") || strings.Contains(o.Outcome, "stack exceeds") {
						loc["how"] = "stack-overflow"
					}
				}
				r.Violate(clause, loc, detail)
				continue
			}
			if o.Alloc > allocBound(len(cb)) {
				detail["alloc"] = o.Alloc
				detail["bound"] = allocBound(len(cb))
				detail["returned_error"] = o.Err
				r.Violate("hostile input: allocation out of proportion to the input", loc, detail)
				continue
			}
			if r.NeedSample() && i%97 == 13 {
				r.Sample(map[string]any{"type": t.Label, "decoder": dec, "corruption": c.kind + ": " + c.note, "input": hex.EncodeToString(cb), "returned_error": o.HasErr, "alloc_bytes": o.Alloc})
			}
		}
	}
}
