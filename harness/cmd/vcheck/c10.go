package main

import (
	"bytes"
	"crypto/sha1"
	"encoding/json"
	"fmt"
	"math/rand"
	"os"
	"os/exec"
	"path/filepath"
	"regexp"
	"sort"
	"strings"
	"sync"

	"verif/harness/core"
)

func init() { checks["C10"] = runC10 }

const c10Appended = "struct VerifAppendedZz {\n\tint32 verifq;\n}\n"

// token spellings for the exhaustive short-token-string workload
var c10Tokens = []string{
	"readonly", "message", "struct", "enum", "deprecated", "opcode", "map", "array", "union", "const", "inf", "nan", "true", "false", "import", "flags",
	"[", "]", "(", ")", "{", "}", ";", ",", "=", "->", "|", "&", "<<", ">>", ":", "\n", "-inf",
	"Foo", "x", "int32", "string", "1", "-1", "0x1F", "1.5", "\"s\"", "\"abcd\"", "// c\n", "/* c */",
	// hostile / malformed spellings
	"$", "\"open", "/* open", "-", "<", "/", ".", "1.", "0x", "1e", "é", "\x00", "\t", "\r\n", "\xff",
}

// core subset for length-4 strings (thorough)
var c10Core = []string{"struct", "message", "enum", "union", "const", "import", "readonly", "[", "]", "{", "}", ";", "=", "->", "Foo", "int32", "1", "\"s\"", "\n", "$", "/* open", "opcode", "flags", "(", ")"}

func c10TokenStrings(thorough bool) [][]byte {
	var out [][]byte
	T := c10Tokens
	for _, a := range T {
		out = append(out, []byte(a))
		for _, b := range T {
			out = append(out, []byte(a+" "+b))
			for _, c := range T {
				out = append(out, []byte(a+" "+b+" "+c))
			}
		}
	}
	// unseparated pairs
	for _, a := range T {
		for _, b := range T {
			out = append(out, []byte(a+b))
		}
	}
	// [flags] expression strings: every string of <=4 expression tokens inside a flags enum
	ex := []string{"1", "-1", "3", "64", "0x1F", "X", "(", ")", "|", "&", "<<", ">>"}
	for _, base := range []string{"int32", "uint8", "int64"} {
		pre := "[flags]\nenum E : " + base + " {\n\tX = 2;\n\tY = "
		var rec func(prefix string, depth int)
		rec = func(prefix string, depth int) {
			if depth > 0 {
				out = append(out, []byte(pre+prefix+";\n}\n"))
			}
			if depth == 4 {
				return
			}
			for _, t := range ex {
				rec(prefix+" "+t, depth+1)
			}
		}
		rec("", 0)
	}
	if thorough {
		for _, a := range c10Core {
			for _, b := range c10Core {
				for _, c := range c10Core {
					for _, d := range c10Core {
						out = append(out, []byte(a+" "+b+" "+c+" "+d))
					}
				}
			}
		}
	}
	return out
}

var c10Builtin = []string{
	"struct A {\n\tint32 x;\n\tstring s;\n}\n\nmessage M {\n\t1 -> A a;\n\t2 -> map[string, int32[]] m;\n}\n",
	"[opcode(\"abcd\")]\nreadonly struct R {\n\tguid g;\n\t[deprecated(\"no\")]\n\tdate d;\n}\nenum E : uint8 {\n\tA = 1;\n\tB = 2;\n}\n[flags]\nenum F {\n\tX = 1 << 1;\n\tY = (X | 4) & 7;\n}\n",
	"import \"other.bop\"\nconst int32 c1 = -5;\nconst string s = \"a\\\"b\";\nconst float64 f = 1.5e3;\nconst guid g = \"e215a946-b26f-4567-a276-13136f0a1708\";\nconst bool b = true;\nconst float32 n = nan;\n",
	"/* block\ncomment */\nunion U {\n\t// doc\n\t1 -> struct S1 { int32 a; }\n\t2 -> message M1 { 1 -> string b; }\n}\n// trailing\n",
}

func c10Corpus() (names []string, texts [][]byte) {
	for i, s := range c10Builtin {
		names = append(names, fmt.Sprintf("builtin%d", i))
		texts = append(texts, []byte(s))
	}
	dir := filepath.Join(core.Repo(), "testdata", "base")
	ents, _ := os.ReadDir(dir)
	var fs []string
	for _, e := range ents {
		if strings.HasSuffix(e.Name(), ".bop") {
			fs = append(fs, e.Name())
		}
	}
	sort.Strings(fs)
	for _, f := range fs {
		b, err := os.ReadFile(filepath.Join(dir, f))
		if err == nil && len(b) < 6000 {
			names = append(names, "testdata/base/"+f)
			texts = append(texts, b)
		}
	}
	return
}

var c10Alphabet = []byte{'$', '"', '/', '*', '[', ']', '{', '}', '(', ')', ';', '=', '-', '>', '<', ':', ',', '\n', '\r', ' ', '0', 'a', 0x00, 0xff}

func h8(b []byte) string { h := sha1.Sum(b); return string(h[:8]) }

func runC10(args []string) {
	r := core.NewRun("C10", "exploration")
	r.Rule = "ReadFile executed in child processes behind a metering reader. (A) every string of <=3 tokens over a 60-spelling alphabet incl. malformed spellings " +
		"(thorough: +length 4 over a 25-spelling core); (B) every prefix, single-byte deletion, and insertion/replacement from a 24-byte hostile alphabet of each corpus schema " +
		"(quick: insertion/replacement at seeded offsets); (C) every reader-failure offset of each corpus schema x {1-byte reads, full reads} x 3 non-EOF error kinds, the failure persistent or transient (reported once, then EOF / then the remaining data), reported by a call that returns no data or by the call that returns the last bytes (n > 0 with the error). " +
		"Oracle: no panic/runaway/CPU budget; reader fault => error; success => reader drained to EOF and ReadFile(x+NL+D) errors or contains D. " +
		"distinct_nontrivial = distinct inputs accepted by ReadFile (completeness clause exercised) + distinct (schema, offset, chunking, error) fault cells."
	r.Assume = []string{"D = a fresh struct definition preceded by a newline; CPU budget 20 s per ReadFile call"}
	bin, err := buildWorker("feworker")
	if err != nil {
		fatalSetup(r, err)
	}
	if p := replayArg(args); p != "" {
		c10Replay(r, bin, p)
		finish(r)
	}
	rng := rand.New(rand.NewSource(r.Seed))

	// ---------- workload A+B: texts --------------------------------------------------
	var texts [][]byte
	var origin []string
	for _, t := range c10TokenStrings(r.Thorough()) {
		texts = append(texts, t)
		origin = append(origin, "tokens")
	}
	nTok := len(texts)
	names, corpus := c10Corpus()
	for ci, src := range corpus {
		add := func(kind string, b []byte) {
			texts = append(texts, b)
			origin = append(origin, kind+":"+names[ci])
		}
		for k := 0; k <= len(src); k++ {
			add("prefix", append([]byte{}, src[:k]...))
		}
		for k := 0; k < len(src); k++ {
			add("delete", append(append([]byte{}, src[:k]...), src[k+1:]...))
		}
		offs := []int{}
		if r.Thorough() {
			for k := 0; k <= len(src); k++ {
				offs = append(offs, k)
			}
		} else {
			for j := 0; j < 24; j++ {
				offs = append(offs, rng.Intn(len(src)+1))
			}
		}
		for _, k := range offs {
			for _, c := range c10Alphabet {
				ins := append(append(append([]byte{}, src[:k]...), c), src[k:]...)
				add("insert", ins)
				if k < len(src) {
					rep := append([]byte{}, src...)
					rep[k] = c
					add("replace", rep)
				}
			}
		}
	}
	r.Set("token_strings", nTok)
	r.Set("corpus_schemas", len(corpus))
	r.Set("mutated_inputs", len(texts)-nTok)

	res1 := make([]*rfRes, len(texts))
	var mu sync.Mutex
	deadX := map[int]string{}
	feBatchRun(bin, "rf", texts, nil, func(i int, raw json.RawMessage) {
		var x rfRes
		json.Unmarshal(raw, &x)
		x.File = nil
		res1[i] = &x
	}, func(i int, outcome, stderr string) {
		mu.Lock()
		deadX[i] = outcome + ": " + core.FatalCause(stderr)
		mu.Unlock()
	})
	// second pass only for the accepted inputs
	// the appended definition follows a line end, a blank, a tab or nothing at all
	seps := []string{"\n", " ", "\t", ""}
	var idx2 []int
	var texts2 [][]byte
	var sep2 []string
	for i, x := range res1 {
		if x != nil && x.Outcome == "ok" && !x.HasErr {
			for si, sp := range seps {
				if si > 0 && origin[i] == "tokens" && i%4 != si {
					continue // token strings: one extra separator each (all four for the corpus mutations)
				}
				if si > 0 && !c10SameLineAppendable(texts[i], sp) {
					continue
				}
				idx2 = append(idx2, i)
				sep2 = append(sep2, sp)
				texts2 = append(texts2, append(append(append([]byte{}, texts[i]...), sp...), c10Appended...))
			}
		}
	}
	res2 := make([]*rfRes, len(texts2))
	dead2 := map[int]string{}
	feBatchRun(bin, "rf", texts2, nil, func(i int, raw json.RawMessage) {
		var x rfRes
		json.Unmarshal(raw, &x)
		x.File = nil
		res2[i] = &x
	}, func(i int, outcome, stderr string) {
		mu.Lock()
		dead2[i] = outcome + ": " + core.FatalCause(stderr)
		mu.Unlock()
	})
	second := map[int][]int{}
	for j, i := range idx2 {
		second[i] = append(second[i], j)
	}

	sampled := 0
	for i, t := range texts {
		kind := origin[i]
		if j := strings.IndexByte(kind, ':'); j >= 0 {
			kind = kind[:j]
		}
		x := res1[i]
		if d, ok := deadX[i]; ok {
			r.Eval("")
			r.Hist("dead")
			if strings.HasPrefix(d, "wall-watchdog") {
				r.Inconclusive("wall watchdog")
				continue
			}
			r.Violate("termination: process died or exceeded the CPU budget", map[string]string{"input": kind, "how": strings.SplitN(d, ":", 2)[0]},
				map[string]any{"text": string(t), "origin": origin[i], "cause": d})
			continue
		}
		if x == nil {
			r.Inconclusive("no result for an input (worker restarted)")
			continue
		}
		if x.Outcome != "ok" {
			r.Eval("")
			r.Hist(strings.SplitN(x.Outcome, ":", 2)[0])
			r.Violate("termination: "+strings.SplitN(x.Outcome, ":", 2)[0], map[string]string{"input": kind, "site": siteOf(x.Site)},
				map[string]any{"text": string(t), "origin": origin[i], "outcome": x.Outcome, "site": x.Site})
			continue
		}
		if x.HasErr {
			r.Eval("")
			r.Hist("rejected")
			continue
		}
		r.Eval("acc/" + h8(t))
		r.Hist("accepted")
		if !x.SawEnd || x.Pos != len(t) {
			r.Violate("completeness: success without draining the reader", map[string]string{"input": kind},
				map[string]any{"text": string(t), "origin": origin[i], "pos": x.Pos, "len": len(t), "saw_end": x.SawEnd})
		}
		for _, j := range second[i] {
			sepName := map[string]string{"\n": "newline", " ": "blank", "\t": "tab", "": "nothing"}[sep2[j]]
			if d, ok := dead2[j]; ok {
				r.Violate("termination: process died or exceeded the CPU budget", map[string]string{"input": kind + "+appended", "how": strings.SplitN(d, ":", 2)[0]},
					map[string]any{"text": string(texts2[j]), "cause": d})
				continue
			}
			y := res2[j]
			if y == nil {
				r.Inconclusive("no result for an input (worker restarted)")
				continue
			}
			if y.Outcome != "ok" {
				r.Violate("termination: "+strings.SplitN(y.Outcome, ":", 2)[0], map[string]string{"input": kind + "+appended", "site": siteOf(y.Site)},
					map[string]any{"text": string(texts2[j]), "outcome": y.Outcome, "site": y.Site})
				continue
			}
			if !y.HasErr {
				found := false
				for _, s := range y.Structs {
					if s == "VerifAppendedZz" {
						found = true
					}
				}
				if !found {
					r.Violate("completeness: appended definition silently dropped", map[string]string{"input": kind, "tail": tailClass(t), "separator": sepName},
						map[string]any{"text": string(t), "origin": origin[i], "separator": sepName, "structs_after_append": y.Structs, "ndefs": y.NDefs})
				} else if sampled < 3 && len(t) > 10 {
					sampled++
					r.Sample(map[string]any{"workload": origin[i], "input": core.Short(string(t), 120), "accepted": true, "appended_after": sepName, "appended_definition_found": true})
				}
			}
		}
	}

	// ---------- workload C: reader faults --------------------------------------------
	type cell struct {
		ci, k, chunk int
		ek           string
		after        string
		withData     bool // the failing Read also returns the last bytes (n > 0, err != nil)
	}
	var cells []cell
	var ftexts [][]byte
	for ci, src := range corpus {
		step := 1
		if !r.Thorough() && len(src) > 600 {
			step = 3
		}
		for k := 0; k <= len(src); k += step {
			for _, chunk := range []int{1, 0} {
				for _, ek := range []string{"generic", "timeout", "ueof", "weof"} {
					if !r.Thorough() && ek != "generic" && (k%5 != 0) {
						continue
					}
					cells = append(cells, cell{ci, k, chunk, ek, "", false})
					ftexts = append(ftexts, src)
					if ek == "generic" {
						// transient failures: the error is reported once, then end of input / the rest of the data
						for _, after := range []string{"eof", "resume"} {
							cells = append(cells, cell{ci, k, chunk, ek, after, false})
							ftexts = append(ftexts, src)
						}
						// the failing call itself still delivers data (n > 0 with the error)
						if k > 0 {
							for _, after := range []string{"", "eof", "resume"} {
								cells = append(cells, cell{ci, k, chunk, ek, after, true})
								ftexts = append(ftexts, src)
							}
						}
					}
				}
			}
		}
	}
	// group by (chunk, ek, k): the reader config is per work item, so batch per config is too
	// fine-grained; instead send one item per cell through a pool of children.
	var fmu sync.Mutex
	faultSampled := 0
	core.Pool(nproc(), func(int) *core.Child { return feChild(bin) }, len(cells), func(i int) any {
		c := cells[i]
		return map[string]any{"op": "rf", "from": 0, "texts": []string{fmt.Sprintf("%x", ftexts[i])},
			"reader": map[string]any{"chunk": c.chunk, "fail_at": c.k, "err": c.ek, "after": c.after, "err_with_data": c.withData}}
	}, func(i int, ch *core.Child, res core.Result) {
		c := cells[i]
		loc := map[string]string{"schema": names[c.ci], "chunk": fmt.Sprint(c.chunk), "err": c.ek}
		if c.after != "" {
			loc["after_failure"] = c.after
		}
		if c.withData {
			loc["failing_read"] = "n>0 with the error"
		}
		key := fmt.Sprintf("fault/%d/%d/%d/%s/%s/%v", c.ci, c.k, c.chunk, c.ek, c.after, c.withData)
		if res.Outcome != "post" || len(res.Res) == 0 {
			if res.Outcome == "wall-watchdog" {
				r.Inconclusive("wall watchdog")
				return
			}
			r.Eval(key)
			r.Violate("reader-fault: process died or exceeded the CPU budget", loc,
				map[string]any{"offset": c.k, "cause": res.Outcome + ": " + core.FatalCause(res.Stderr), "schema_text": string(ftexts[i])})
			return
		}
		var l struct {
			R rfRes `json:"r"`
		}
		json.Unmarshal(res.Res[0], &l)
		x := l.R
		r.Eval(key)
		if x.Outcome != "ok" {
			loc["at"] = offClass(c.k, len(ftexts[i]))
			r.Violate("reader-fault: "+strings.SplitN(x.Outcome, ":", 2)[0], loc,
				map[string]any{"offset": c.k, "outcome": x.Outcome, "site": x.Site, "schema_text": string(ftexts[i])})
			return
		}
		if !x.HasErr {
			r.Violate("reader-fault: I/O error swallowed (ReadFile returned nil error)", loc,
				map[string]any{"offset": c.k, "ndefs": x.NDefs, "structs": x.Structs, "schema_text": string(ftexts[i])})
			return
		}
		fmu.Lock()
		if faultSampled < 2 && c.k > 20 {
			faultSampled++
			r.Sample(map[string]any{"workload": "reader-fault", "schema": names[c.ci], "fail_at_byte": c.k, "bytes_per_read": c.chunk, "error_kind": c.ek, "readfile_err": core.Short(x.Err, 100)})
		}
		fmu.Unlock()
	})
	r.Set("reader_fault_cells", len(cells))
	if r.Thorough() {
		c10Fuzz(r)
	}
	finish(r)
}

var fuzzFailRe = regexp.MustCompile(`Failing input written to (\S+)`)

// c10Fuzz: coverage-guided tier (native Go fuzzing, bounded by execution count) with the
// same oracle inside the fuzz target (harness/fuzz).
func c10Fuzz(r *core.Run) {
	execs := "1500000x"
	cmd := exec.Command("go", "test", "-run", "^$", "-fuzz", "FuzzReadFile", "-fuzztime", execs, "./fuzz")
	cmd.Dir = filepath.Join(core.Root(), "harness")
	cmd.Env = append(os.Environ(), "VERIF_REPO="+core.Repo())
	out, err := cmd.CombinedOutput()
	text := string(out)
	r.Set("fuzz_tail", core.Short(tail(text, 400), 400))
	crashDir := filepath.Join(core.Root(), "harness", "fuzz", "testdata")
	defer os.RemoveAll(crashDir)
	if m := regexp.MustCompile(`execs: (\d+)`).FindAllStringSubmatch(text, -1); len(m) > 0 {
		var n int
		fmt.Sscan(m[len(m)-1][1], &n)
		r.EvalN(n, "fuzz/coverage-guided")
		r.Set("fuzz_executions", n)
	}
	if err == nil {
		return
	}
	if m := fuzzFailRe.FindStringSubmatch(text); m != nil {
		b, _ := os.ReadFile(filepath.Join(core.Root(), "harness", "fuzz", m[1]))
		clause := "termination: panic"
		switch {
		case strings.Contains(text, "silently dropped"):
			clause = "completeness: appended definition silently dropped"
		case strings.Contains(text, "without draining"):
			clause = "completeness: success without draining the reader"
		case strings.Contains(text, "did not return"):
			clause = "termination: process died or exceeded the CPU budget"
		}
		r.Violate(clause, map[string]string{"input": "fuzz"}, map[string]any{"go_fuzz_corpus_entry": string(b), "output": core.Short(tail(text, 1500), 1500)})
		return
	}
	r.Inconclusive("go test -fuzz failed without a failing input: " + core.Short(tail(text, 200), 200))
}

// c10SameLineAppendable: may a definition be appended to x on the same line after sep and
// still be "one more valid definition"? Not when x's last line holds a line comment (the
// definition would become comment text), and with no separator at all only when x ends in
// a token that cannot merge with the keyword that follows.
func c10SameLineAppendable(x []byte, sep string) bool {
	last := x
	if i := bytes.LastIndexByte(x, '\n'); i >= 0 {
		last = x[i+1:]
	}
	if bytes.Contains(last, []byte("//")) {
		return false
	}
	if sep == "" {
		if len(x) == 0 {
			return true
		}
		switch x[len(x)-1] {
		case '}', ';', ')', ']', '\n', ' ', '\t', '\r':
			return true
		}
		return false
	}
	return true
}

func siteOf(site []string) string {
	if len(site) == 0 {
		return ""
	}
	s := site[0]
	if i := strings.IndexByte(s, ' '); i >= 0 {
		s = s[:i]
	}
	return s
}

func offClass(k, n int) string {
	switch {
	case k == 0:
		return "offset0"
	case k == n:
		return "end"
	}
	return "inside"
}

func tailClass(t []byte) string {
	s := strings.TrimRight(string(t), " \t\r\n")
	if s == "" {
		return "blank"
	}
	c := s[len(s)-1]
	switch {
	case c == '}' || c == ';':
		return "after-definition"
	}
	return "other"
}

func c10Replay(r *core.Run, bin, path string) {
	b, err := os.ReadFile(path)
	if err != nil {
		fatalSetup(r, err)
	}
	var rep struct {
		Clause string `json:"clause"`
		Detail struct {
			Text   string `json:"text"`
			Schema string `json:"schema_text"`
			Offset int    `json:"offset"`
		} `json:"detail"`
		Locus map[string]string `json:"locus"`
	}
	json.Unmarshal(b, &rep)
	ch := feChild(bin)
	defer ch.Close()
	run := func(text string, reader map[string]any) *rfRes {
		it := map[string]any{"op": "rf", "from": 0, "texts": []string{fmt.Sprintf("%x", text)}}
		if reader != nil {
			it["reader"] = reader
		}
		res := ch.Do(it)
		if res.Outcome != "post" || len(res.Res) == 0 {
			fmt.Println("replay: child", res.Outcome, core.FatalCause(res.Stderr))
			r.Eval("replay")
			r.Violate(rep.Clause, rep.Locus, map[string]any{"replayed": true, "cause": res.Outcome})
			return nil
		}
		var l struct {
			R rfRes `json:"r"`
		}
		json.Unmarshal(res.Res[0], &l)
		return &l.R
	}
	if strings.HasPrefix(rep.Clause, "reader-fault") {
		chunk := 0
		fmt.Sscan(rep.Locus["chunk"], &chunk)
		x := run(rep.Detail.Schema, map[string]any{"chunk": chunk, "fail_at": rep.Detail.Offset, "err": rep.Locus["err"], "after": rep.Locus["after_failure"]})
		if x != nil {
			r.Eval("replay")
			fmt.Printf("replay: outcome=%s err=%v %q\n", x.Outcome, x.HasErr, x.Err)
			if x.Outcome != "ok" || !x.HasErr {
				r.Violate(rep.Clause, rep.Locus, map[string]any{"replayed": true, "outcome": x.Outcome, "has_err": x.HasErr})
			}
		}
		return
	}
	x := run(rep.Detail.Text, nil)
	if x == nil {
		return
	}
	r.Eval("replay")
	fmt.Printf("replay: ReadFile(x): outcome=%s err=%v %q structs=%v\n", x.Outcome, x.HasErr, x.Err, x.Structs)
	if x.Outcome != "ok" {
		r.Violate(rep.Clause, rep.Locus, map[string]any{"replayed": true, "outcome": x.Outcome})
		return
	}
	if !x.HasErr {
		y := run(rep.Detail.Text+"\n"+c10Appended, nil)
		if y != nil {
			fmt.Printf("replay: ReadFile(x+D): outcome=%s err=%v structs=%v\n", y.Outcome, y.HasErr, y.Structs)
			found := false
			for _, s := range y.Structs {
				if s == "VerifAppendedZz" {
					found = true
				}
			}
			if y.Outcome != "ok" || (!y.HasErr && !found) {
				r.Violate(rep.Clause, rep.Locus, map[string]any{"replayed": true})
			}
		}
	}
}
