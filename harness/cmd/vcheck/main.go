// vcheck is the controller: workload generators, reference models and deciders. It never
// links the repository under test; everything that does runs in child processes.
package main

import (
	"fmt"
	"os"
	"os/exec"
	"path/filepath"
	"strings"

	"verif/harness/core"
)

var workDir string

func work() string {
	if workDir == "" {
		workDir = filepath.Join(core.Root(), ".work", fmt.Sprint(os.Getpid()))
		os.MkdirAll(workDir, 0o755)
	}
	return workDir
}

func cleanup() {
	if workDir != "" && os.Getenv("VERIF_KEEP") == "" {
		os.RemoveAll(workDir)
	}
}

// buildWorker builds harness/cmd/<name> (which links /repo) with extra flags.
func buildWorker(name string, flags ...string) (string, error) {
	tag := strings.NewReplacer("-", "", "=", "", " ", "", "/", "").Replace(strings.Join(flags, ""))
	out := filepath.Join(work(), "bin", name+tag)
	args := append([]string{"build", "-tags", "verif"}, flags...)
	if core.Repo() != "/repo" {
		// triage against a scratch copy of the repository (REPO=...): same module, other replace target
		alt := filepath.Join(work(), "alt.mod")
		os.MkdirAll(work(), 0o755)
		gomod := "module verif/harness\n\ngo 1.21\n\nrequire github.com/200sc/bebop v0.0.0\n\nreplace github.com/200sc/bebop => " + core.Repo() + "\n"
		os.WriteFile(alt, []byte(gomod), 0o644)
		if b, err := os.ReadFile(filepath.Join(core.Root(), "harness", "go.sum")); err == nil {
			os.WriteFile(filepath.Join(work(), "alt.sum"), b, 0o644)
		}
		args = append(args, "-modfile="+alt)
	}
	args = append(args, "-o", out, "./cmd/"+name)
	cmd := exec.Command("go", args...)
	cmd.Dir = filepath.Join(core.Root(), "harness")
	b, err := cmd.CombinedOutput()
	if err != nil {
		return "", fmt.Errorf("go %s: %v\n%s", strings.Join(args, " "), err, b)
	}
	return out, nil
}

var checks = map[string]func(args []string){}

func main() {
	if len(os.Args) < 2 {
		fmt.Fprintln(os.Stderr, "usage: vcheck <Cxx> [--tier quick|thorough] [--replay file]")
		os.Exit(2)
	}
	id := os.Args[1]
	args := os.Args[2:]
	for i := 0; i < len(args); i++ {
		if args[i] == "--tier" && i+1 < len(args) {
			os.Setenv("VERIF_TIER", args[i+1])
		}
	}
	f, ok := checks[id]
	if !ok {
		fmt.Fprintf(os.Stderr, "unknown check %s\n", id)
		os.Exit(2)
	}
	defer cleanup()
	f(args)
}

// exit runs cleanup then finishes the run (Finish calls os.Exit).
func finish(r *core.Run) {
	cleanup()
	r.Finish()
}

func fatalSetup(r *core.Run, err error) {
	fmt.Fprintf(os.Stderr, "SETUP-FAILED property=%s: %v\n", r.Prop, err)
	cleanup()
	os.Exit(2)
}

func replayArg(args []string) string {
	for i := 0; i < len(args); i++ {
		if args[i] == "--replay" && i+1 < len(args) {
			return args[i+1]
		}
	}
	return ""
}
