package main

import (
	"encoding/hex"
	"encoding/json"
	"strings"

	"verif/harness/codec"
	"verif/harness/core"
)

func init() { checks["C08"] = runC08 }

type wfRes struct {
	Outcome string   `json:"o"`
	Site    []string `json:"site"`
	Err     string   `json:"err"`
	HasErr  bool     `json:"e"`
	Written int      `json:"written"`
	Writes  int      `json:"writes"`
	After   int      `json:"after"`
	Alloc   uint64   `json:"alloc"`
}

func runC08(args []string) {
	r := core.NewRun("C08", "fault_enumeration")
	r.Rule = "codec corpus (systematic matrix + seeded random schemas); per record type several values; WRITE side: a fault-free EncodeBebop run counts the Write calls, then the j-th Write fails for EVERY j " +
		"(persistent failure with a generic error, io.ErrShortWrite with a partial write, io.EOF; and a fail-once writer that recovers afterwards); READ side: DecodeBebop gets k bytes and then a failing reader for EVERY k < len " +
		"(generic error, timeout-like error, io.ErrUnexpectedEOF). Oracle per fault point: non-nil error returned; no panic, process death, runaway, CPU > 2 s; allocation within 64KiB + 1024*len. " +
		"Fault-free: EncodeBebop returns nil and wrote exactly MarshalBebop's bytes. distinct_nontrivial = distinct (record type, side, error kind, wire role at the fault point) tuples."
	r.Assume = []string{"the reader delivers the bytes before the fault normally (full reads)"}
	nv := 2
	nrandom := 6
	if r.Thorough() {
		nv = 8
		nrandom = 40
	}
	pickHist = func(k string) { r.Hist(k) }
	corpus, err := buildCorpus(r, corpusCfg{Opts: []Opts{{}}, Random: nrandom, Name: "c08"})
	if err != nil {
		fatalSetup(r, err)
	}
	points := 0
	corpus.forEachType(false, func(ch *core.Child, t *CType) {
		vg := codec.NewVG(t.Ctx, r.Seed)
		// the first value (everything present) and those that add the most wire features
		var vals []any
		for _, ev := range pickRich(t, encodeValues(ch, t, vg.RecordsRich(t.Def, 12)), nv) {
			vals = append(vals, ev.V)
		}
		done := 0
		seen := map[string]bool{}
		for _, v := range vals {
			if r.Broken() || done >= nv {
				return
			}
			var er encRes
			res := ch.Do(map[string]any{"op": "enc", "pkg": t.Pkg.Name, "type": t.Def.Name, "val": v})
			if !postOf(res, &er) || er.FillErr != "" || er.HarnessE != "" || er.EncodeO != "ok" || er.MarshalO != "ok" {
				continue
			}
			if seen[er.Encode] {
				continue
			}
			seen[er.Encode] = true
			done++
			loc0 := t.Locus()
			mk := func(extra map[string]any) map[string]any {
				m := map[string]any{"type": t.Def.Name, "origin": t.Label, "value": v, "schema": t.Pkg.Text}
				for k, x := range extra {
					m[k] = x
				}
				return m
			}
			// fault-free clause
			r.Eval(t.Label + "|clean")
			if er.EncodeErr != "" {
				l := copyLocus(loc0)
				l["side"] = "write"
				r.Violate("fault-free EncodeBebop returned an error", l, mk(map[string]any{"err": er.EncodeErr}))
			} else if !t.Ctx.DefHasMultiMap(t.Def, v) && er.Encode != er.Marshal {
				l := copyLocus(loc0)
				l["side"] = "write"
				r.Violate("EncodeBebop returned nil but wrote other bytes than MarshalBebop", l, mk(map[string]any{"encode": er.Encode, "marshal": er.Marshal}))
			}
			enc, _ := hex.DecodeString(er.Encode)
			roles := rolesOf(t, v)
			// ---- writer faults
			kinds := []struct{ err, how string }{{"generic", ""}, {"shortwrite", ""}, {"generic", "once"}}
			if r.Thorough() || done == 1 {
				kinds = append(kinds, struct{ err, how string }{"eof", ""})
			}
			long := len(enc) > 1500 && !r.Thorough()
			if long {
				kinds = kinds[:1] // long encodings: one error kind per side in quick
			}
			for _, kd := range kinds {
				ename := kd.err
				if kd.how != "" {
					ename += "/" + kd.how
				}
				var got []wfRes
				idx := map[int]int{}
				total := er.Writes
				core.RunBatch(ch, total+1, func(from int) any {
					return map[string]any{"op": "wfaults", "pkg": t.Pkg.Name, "type": t.Def.Name, "val": v, "err": kd.err, "how": kd.how, "from": from}
				}, func(i int, raw json.RawMessage) {
					var x wfRes
					json.Unmarshal(raw, &x)
					idx[i] = len(got)
					got = append(got, x)
				}, func(i int, outcome, stderr string) {
					idx[i] = len(got)
					got = append(got, wfRes{Outcome: outcome + ": " + core.FatalCause(stderr)})
				})
				for j := 1; j <= total; j++ {
					gi, ok := idx[j]
					if !ok {
						r.Inconclusive("write fault point not executed")
						continue
					}
					x := got[gi]
					role := "?"
					if x.Written < len(roles) {
						role = roles[x.Written].Kind
					}
					r.Eval(t.Label + "|write|" + ename + "|" + role)
					sampleMu.Lock()
					points++
					sampleMu.Unlock()
					l := copyLocus(loc0)
					l["side"], l["err"], l["role"] = "write", ename, role
					d := mk(map[string]any{"failing_write_call": j, "of": total, "bytes_written_before": x.Written, "error_kind": ename})
					if x.Outcome != "ok" {
						cls := outcomeClass(x.Outcome)
						if cls == "wall-watchdog" {
							r.Inconclusive("wall watchdog")
							continue
						}
						l["how"] = cls
						d["outcome"] = x.Outcome
						r.Violate("write fault: "+cls, l, d)
						continue
					}
					if !x.HasErr {
						r.Violate("write fault: EncodeBebop returned nil although a Write failed", l, d)
						continue
					}
					if x.Alloc > allocBound(len(enc)) {
						d["alloc"] = x.Alloc
						r.Violate("write fault: allocation out of proportion", l, d)
					}
				}
				if r.NeedSample() && total > 3 && total < 30 && len(got) > 0 {
					r.Sample(map[string]any{"type": t.Label, "side": "write", "error_kind": ename, "write_calls_of_a_fault_free_run": total, "fault_points_executed": total, "all_returned_an_error": true})
				}
			}
			// ---- reader faults
			if len(enc) == 0 {
				continue
			}
			rkinds := []string{"generic", "timeout"}
			if r.Thorough() || done == 1 {
				rkinds = append(rkinds, "ueof")
			}
			if long {
				rkinds = rkinds[:1]
			}
			for _, ek := range rkinds {
				citem := map[string]any{"op": "cuts", "pkg": t.Pkg.Name, "type": t.Def.Name, "hex": er.Encode, "how": "decode", "err": ek}
				if len(enc) > 1500 && !r.Thorough() {
					citem["step"] = 53
				}
				codes, detail, dead := runCuts(ch, citem, len(enc))
				for k, c := range codes {
					if c == '-' {
						continue
					}
					role := "?"
					if k < len(roles) {
						role = roles[k].Kind
					}
					r.Eval(t.Label + "|read|" + ek + "|" + role)
					sampleMu.Lock()
					points++
					sampleMu.Unlock()
					l := copyLocus(loc0)
					l["side"], l["err"], l["role"] = "read", ek, role
					d := mk(map[string]any{"encoding": er.Encode, "reader_fails_after_bytes": k, "error_kind": ek})
					switch c {
					case 'e':
						if x, ok := detail[k]; ok && x.Alloc > allocBound(len(enc)) {
							d["alloc"] = x.Alloc
							r.Violate("read fault: allocation out of proportion", l, d)
						}
					case 'D':
						if strings.HasPrefix(dead[k], "wall") {
							r.Inconclusive("wall watchdog")
							continue
						}
						l["how"] = strings.SplitN(dead[k], ":", 2)[0]
						d["cause"] = dead[k]
						r.Violate("read fault: process died or exceeded the CPU budget", l, d)
					case '?':
						r.Inconclusive("read fault point not executed")
					case 'n':
						r.Violate("read fault: DecodeBebop returned nil although the reader failed", l, d)
					default:
						x := detail[k]
						l["how"] = outcomeClass(x.Outcome)
						d["outcome"] = x.Outcome
						d["site"] = x.Site
						r.Violate("read fault: "+outcomeClass(x.Outcome), l, d)
					}
				}
			}
		}
	})
	r.Set("fault_points_executed", points)
	r.Set("exhaustive_over_fault_points_per_value", true)
	finish(r)
}
