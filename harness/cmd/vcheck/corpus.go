package main

import (
	"encoding/json"
	"fmt"
	"math/rand"
	"os"
	"strings"
	"sync"
	"time"

	"verif/harness/codec"
	"verif/harness/core"
	"verif/harness/schema"
)

// CType is one record type of the codec corpus.
type CType struct {
	Pkg   *GenPkg
	Ctx   *codec.Ctx
	Def   *schema.Def
	Cell  *schema.Cell // nil for random schemas
	Label string
}

func (t *CType) Locus() map[string]string {
	l := map[string]string{"opts": t.Pkg.Opts.String(), "kind": t.Def.Kind}
	if t.Ctx.HasZeroSizeArrayElem(t.Def) {
		l["zero_size_array_elem"] = "yes"
	} else {
		l["zero_size_array_elem"] = "no"
	}
	if t.Cell != nil {
		l["elem"], l["shape"], l["ctx"] = t.Cell.Elem, t.Cell.Shape, t.Cell.Ctx
		l["family"] = "cell"
	} else {
		l["family"] = strings.SplitN(t.Label, "/", 2)[0]
		l["schema"] = t.Label
	}
	return l
}

type Corpus struct {
	Types      []*CType
	Pkgs       []*GenPkg
	Driver     string
	DriverAsan string
	Dropped    int
	mod        *modDir
}

type corpusCfg struct {
	Opts        []Opts
	Random      int
	CellFilter  func(c schema.Cell) bool
	RecordsOnly bool     // only top-level cell records (not support/branch types)
	Flags       []string // extra go build flags (e.g. -asan)
	Name        string
	Extra       []schema.Named // extra schemas
	NoExtremes  bool
	NoImports   bool
}

// buildCorpus generates, compiles and links the codec corpus.
func buildCorpus(r *core.Run, cfg corpusCfg) (*Corpus, error) {
	febin, err := buildWorker("feworker")
	if err != nil {
		return nil, err
	}
	if cfg.Name == "" {
		cfg.Name = "corpus"
	}
	c := &Corpus{}
	n := 0
	cells := schema.Matrix()
	var sel []schema.Cell
	for _, cl := range cells {
		if cfg.CellFilter == nil || cfg.CellFilter(cl) {
			sel = append(sel, cl)
		}
	}
	type pend struct {
		p     *GenPkg
		cells []schema.Cell
		label string
	}
	var pends []pend
	for _, o := range cfg.Opts {
		// group by context so that one failing context template cannot take others away
		byCtx := map[string][]schema.Cell{}
		var order []string
		for _, cl := range sel {
			if _, ok := byCtx[cl.Ctx]; !ok {
				order = append(order, cl.Ctx)
			}
			byCtx[cl.Ctx] = append(byCtx[cl.Ctx], cl)
		}
		for _, ctx := range order {
			for _, g := range schema.Group(byCtx[ctx], 40) {
				n++
				p := &GenPkg{Name: fmt.Sprintf("c%04d", n), Label: "cells/" + ctx, S: g.S, Opts: o}
				pends = append(pends, pend{p, g.Cells, ""})
			}
		}
	}
	rng := rand.New(rand.NewSource(r.Seed*7919 + 17))
	var rnd []schema.Named
	for i := 0; i < cfg.Random; i++ {
		g := &schema.Gen{R: rng, Cfg: schema.GenCfg{Comments: false, Attrs: true, Consts: false, MaxDefs: 8, MaxDepth: 3, NoFloatKeys: false}}
		rnd = append(rnd, schema.Named{Name: fmt.Sprintf("random/%d/%d", r.Seed, i), S: g.Random()})
	}
	rnd = append(rnd, cfg.Extra...)
	for i, nm := range rnd {
		o := cfg.Opts[i%len(cfg.Opts)]
		n++
		pends = append(pends, pend{&GenPkg{Name: fmt.Sprintf("c%04d", n), Label: nm.Name, S: nm.S, Opts: o}, nil, nm.Name})
	}
	if !cfg.NoExtremes {
		// the extremes family runs under every option row of the configuration
		for _, nm := range schema.ExtremesFamily() {
			for _, o := range cfg.Opts {
				n++
				pends = append(pends, pend{&GenPkg{Name: fmt.Sprintf("c%04d", n), Label: nm.Name, S: nm.S, Opts: o}, nil, nm.Name})
			}
		}
	}
	mod, err := newMod(cfg.Name)
	if err != nil {
		return nil, err
	}
	c.mod = mod
	if !cfg.NoImports {
		// separate-mode import sets: records whose fields, elements and map values are types of
		// another generated package
		for _, ip := range importSets(mod, "c", n, cfg.Opts) {
			n++
			pends = append(pends, pend{ip, nil, ip.Label})
		}
	}
	for _, pd := range pends {
		c.Pkgs = append(c.Pkgs, pd.p)
	}
	generateAll(febin, c.Pkgs, mod)
	if err := mod.compile(c.Pkgs); err != nil {
		return nil, err
	}
	for _, pd := range pends {
		if !pd.p.OK() {
			c.Dropped++
			r.Hist("corpus package dropped (does not generate/compile; C12's business)")
			continue
		}
		ctx := &codec.Ctx{S: pd.p.S}
		if pd.p.CtxS != nil {
			ctx = &codec.Ctx{S: pd.p.CtxS}
		}
		if pd.cells != nil {
			for i := range pd.cells {
				cl := pd.cells[i]
				d := pd.p.S.Find(cl.Rec)
				c.Types = append(c.Types, &CType{Pkg: pd.p, Ctx: ctx, Def: d, Cell: &cl, Label: "cell/" + cl.Key()})
			}
			continue
		}
		for _, d := range pd.p.S.All() {
			if d.Kind == "struct" || d.Kind == "message" || d.Kind == "union" {
				c.Types = append(c.Types, &CType{Pkg: pd.p, Ctx: ctx, Def: d, Label: pd.label + "#" + d.Name})
			}
		}
	}
	if len(c.Types) == 0 {
		return nil, fmt.Errorf("codec corpus is empty (nothing compiled)")
	}
	bin, err := mod.buildDriver(c.Pkgs, "driver"+strings.Join(cfg.Flags, ""), cfg.Flags...)
	if err != nil {
		return nil, err
	}
	c.Driver = bin
	r.Set("corpus_packages", len(c.Pkgs)-c.Dropped)
	r.Set("corpus_record_types", len(c.Types))
	r.Set("corpus_packages_dropped", c.Dropped)
	return c, nil
}

func (c *Corpus) child(asan bool) *core.Child {
	ch := &core.Child{Name: "driver", Argv: []string{c.Driver}, CPUBudget: 2 * time.Second, Wall: 10 * time.Minute}
	if asan {
		ch.Argv = []string{c.DriverAsan}
		ch.CPUBudget = 10 * time.Second
		ch.Env = []string{"ASAN_OPTIONS=detect_leaks=0:halt_on_error=1:abort_on_error=0"}
	} else {
		ch.Env = []string{"VERIF_AS_LIMIT_MB=6144"}
	}
	return ch
}

// driver result mirrors
type encRes struct {
	FillErr   string     `json:"fill_err"`
	Size      int        `json:"size"`
	SizeOut   string     `json:"size_o"`
	Marshal   string     `json:"marshal"`
	MarshalO  string     `json:"marshal_o"`
	To        []toRes    `json:"to"`
	Encode    string     `json:"encode"`
	EncodeO   string     `json:"encode_o"`
	EncodeErr string     `json:"encode_err"`
	Writes    int        `json:"writes"`
	Sites     [][]string `json:"sites"`
	HarnessE  string     `json:"harness_error"`
}

type toRes struct {
	Prefill string `json:"prefill"`
	N       int    `json:"n"`
	Buf     string `json:"buf"`
	Outcome string `json:"o"`
}

type decRes struct {
	Outcome  string   `json:"o"`
	Site     []string `json:"site"`
	Err      string   `json:"err"`
	HasErr   bool     `json:"e"`
	Val      any      `json:"val"`
	Pos      int      `json:"pos"`
	Reads    int      `json:"reads"`
	AfterEnd int      `json:"after_end"`
	Alloc    uint64   `json:"alloc"`
	Size     int      `json:"size"`
}

type decCase struct {
	Type   string         `json:"type"`
	Hex    string         `json:"hex"`
	How    string         `json:"how"`
	Reader map[string]any `json:"reader,omitempty"`
	NoVal  bool           `json:"noval,omitempty"`
}

func postOf(res core.Result, out any) bool {
	if res.Outcome != "post" {
		return false
	}
	var p struct {
		R json.RawMessage `json:"r"`
	}
	json.Unmarshal(res.Post, &p)
	json.Unmarshal(p.R, out)
	return true
}

// runCases sends a batch of decode cases; dead cases get Outcome fatal/cpu-budget.
func runCases(ch *core.Child, pkg string, cases []decCase) []decRes {
	out := make([]decRes, len(cases))
	core.RunBatch(ch, len(cases), func(from int) any {
		return map[string]any{"op": "cases", "pkg": pkg, "from": from, "cases": cases}
	}, func(i int, raw json.RawMessage) {
		json.Unmarshal(raw, &out[i])
	}, func(i int, outcome, stderr string) {
		if i < len(out) {
			out[i] = decRes{Outcome: outcome + ": " + core.FatalCause(stderr)}
		}
	})
	return out
}

// forEachType runs f over all corpus types on a pool of driver children.
func (c *Corpus) forEachType(asan bool, f func(ch *core.Child, t *CType)) {
	var wg sync.WaitGroup
	next := make(chan *CType)
	for w := 0; w < nproc(); w++ {
		wg.Add(1)
		go func() {
			defer wg.Done()
			ch := c.child(asan)
			defer ch.Close()
			for t := range next {
				f(ch, t)
			}
		}()
	}
	only := os.Getenv("VERIF_TYPE_FILTER") // triage only: substring of the type label
	for _, t := range c.Types {
		if only != "" && !strings.Contains(t.Label, only) {
			continue
		}
		next <- t
	}
	close(next)
	wg.Wait()
}
