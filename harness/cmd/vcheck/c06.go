package main

import (
	"encoding/hex"
	"fmt"
	"strings"

	"verif/harness/codec"
	"verif/harness/core"
	"verif/harness/schema"
)

func init() {
	checks["C06"] = runC06
}

func cellSample(every int) func(c schema.Cell) bool {
	i := 0
	return func(c schema.Cell) bool {
		i++
		return every <= 1 || i%every == 0
	}
}

func runC06(args []string) {
	r := core.NewRun("C06", "fault_enumeration")
	r.Rule = "codec corpus (systematic matrix + seeded random schemas); per record type several values with distinct encodings: of 18 generated values (12 + 6 with every field present and shifted variants) the first and those adding the most wire features (role kinds; counts announcing 0/1/several/many); " +
		"EVERY strict prefix 0 <= k < len of each encoding is given to UnmarshalBebop (exactly sized buffer) and to DecodeBebop (metering reader ending in EOF; for part of the values also ending in io.ErrUnexpectedEOF and a generic error); " +
		"oracle per cut: a non-nil error is returned; no panic, no process death, no reads-after-end runaway, CPU within 2 s, allocation <= 64KiB + 1024*len. " +
		"distinct_nontrivial = distinct (record type, decoder, wire role of the first missing byte) triples cut."
	r.Assume = []string{"in this wire format no strict prefix of a single top-level record is itself a complete encoding; cross-checked with the reference decoder for every cut that is not answered with an error",
		"allocation is measured as the growth of /gc/heap/allocs:bytes around the call"}
	nv := 3
	nrandom := 6
	if r.Thorough() {
		nv = 12
		nrandom = 40
	}
	pickHist = func(k string) { r.Hist(k) }
	corpus, err := buildCorpus(r, corpusCfg{Opts: []Opts{{}}, Random: nrandom, Name: "c06"})
	if err != nil {
		fatalSetup(r, err)
	}
	sampled := 0
	totalCuts := 0
	passes := []bool{false}
	if r.Thorough() {
		if bin, aerr := corpus.mod.buildDriver(corpus.Pkgs, "driver-asan", "-asan"); aerr == nil {
			corpus.DriverAsan = bin
			passes = append(passes, true)
		} else {
			r.Inconclusive("asan driver unavailable: " + core.Short(aerr.Error(), 120))
		}
	}
	for _, asan := range passes {
		asan := asan
		if asan {
			nv = 2
		}
		corpus.forEachType(asan, func(ch *core.Child, t *CType) {
			vg := codec.NewVG(t.Ctx, r.Seed)
			cand := vg.RecordsRich(t.Def, 12)
			// the first value (everything present) and those that add the most wire features
			evs := pickRich(t, encodeValues(ch, t, cand), nv)
			bigFrom := len(evs)
			if strings.HasPrefix(t.Label, "extremes/big-containers") && !asan {
				// one value whose containers hold 20 000 elements: only on prefixes of such an
				// encoding can a decoder that allocates for the announced count exceed the bound
				vb := codec.NewVG(t.Ctx, r.Seed)
				vb.BigN = 20000
				// candidates are generated and encoded one at a time (each is several MB as an abstract value)
				var best *encVal
				vb.EachRich(t.Def, 6, func(cv any) bool {
					if es := encodeValues(ch, t, []any{cv}); len(es) == 1 && len(es[0].B) > 100000 {
						best = &es[0]
						return false
					}
					return true
				})
				if best != nil && len(best.B) > 100000 {
					evs = append(evs, *best)
					r.Hist(fmt.Sprintf("big-container value swept (%s, %d KiB encoding)", t.Def.Name, len(best.B)>>10))
				}
			}
			for vi, ev := range evs {
				if r.Broken() {
					return
				}
				if len(ev.B) == 0 {
					continue
				}
				roles := rolesOf(t, ev.V)
				decs := []struct{ how, err string }{{"unmarshal", ""}, {"decode", "eof"}}
				if vi == 0 {
					decs = append(decs, struct{ how, err string }{"decode", "ueof"}, struct{ how, err string }{"decode", "generic"})
				}
				for _, dc := range decs {
					item := map[string]any{"op": "cuts", "pkg": t.Pkg.Name, "type": t.Def.Name, "hex": hex.EncodeToString(ev.B), "how": dc.how, "err": dc.err}
					if len(ev.B) > 1500 && !r.Thorough() {
						// long encodings: every offset near both ends, every 53rd in between (all in thorough)
						item["step"] = 53
					}
					if vi >= bigFrom {
						item["step"] = len(ev.B)/120 + 1
					}
					if dc.err == "ueof" {
						// deliver the prefix, then io.ErrUnexpectedEOF instead of EOF
						item["err"] = "ueof"
					}
					codes, detail, dead := runCuts(ch, item, len(ev.B))
					decName := dc.how
					if dc.err != "" && dc.err != "eof" {
						decName += "/" + dc.err
					}
					for k, c := range codes {
						if c == '-' {
							continue // offset left out of a sparse sweep
						}
						role := "?"
						if k < len(roles) {
							role = roles[k].Kind
						}
						if asan {
							r.Eval(t.Label + "|" + decName + "|" + role + "|asan")
						} else {
							r.Eval(t.Label + "|" + decName + "|" + role)
						}
						sampleMu.Lock()
						totalCuts++
						sampleMu.Unlock()
						loc := t.Locus()
						loc["decoder"] = decName
						loc["role"] = role
						if asan {
							loc["build"] = "asan"
						}
						mkDetail := func(extra map[string]any) map[string]any {
							m := map[string]any{"type": t.Def.Name, "origin": t.Label, "value": ev.V, "encoding": hex.EncodeToString(ev.B), "cut": k, "decoder": decName, "schema": t.Pkg.Text}
							for kk, x := range extra {
								m[kk] = x
							}
							return m
						}
						if c == 'e' {
							if d, ok := detail[k]; ok && d.Alloc > allocBound(k) {
								r.Violate("truncation: allocation out of proportion to the input", loc, mkDetail(map[string]any{"alloc": d.Alloc, "bound": allocBound(k)}))
							}
							continue
						}
						if c == 'D' {
							cause := dead[k]
							if strings.HasPrefix(cause, "wall") {
								r.Inconclusive("wall watchdog")
								continue
							}
							loc["how"] = strings.SplitN(cause, ":", 2)[0]
							r.Violate("truncation: process died or exceeded the CPU budget", loc, mkDetail(map[string]any{"cause": cause}))
							continue
						}
						if c == '?' {
							r.Inconclusive("cut not executed (sweep abandoned after repeated crashes)")
							continue
						}
						d := detail[k]
						if c == 'n' {
							// soundness cross-check: is the prefix a complete encoding for the reference decoder?
							if dc.how == "unmarshal" || dc.err == "eof" || dc.err == "" {
								if _, n, derr := t.Ctx.DecodeRecord(t.Def.Name, ev.B[:k]); derr == nil && n == k {
									r.Inconclusive("prefix is itself a conformant encoding")
									continue
								}
							}
							r.Violate("truncation: accepted without error", loc, mkDetail(nil))
							continue
						}
						loc["site"] = siteTop(d.Site)
						r.Violate("truncation: "+outcomeClass(d.Outcome), loc, mkDetail(map[string]any{"outcome": d.Outcome, "site": d.Site}))
					}
					sampleMu.Lock()
					if sampled < 4 && len(ev.B) > 10 && len(ev.B) < 60 && strings.Count(string(codes), "e") == len(codes) {
						sampled++
						r.Sample(map[string]any{"type": t.Label, "decoder": decName, "encoding": hex.EncodeToString(ev.B), "cuts": len(codes), "outcome_per_cut": string(codes), "legend": "e = error returned"})
					}
					sampleMu.Unlock()
				}
			}
		})
	}
	r.Set("sanitizer_pass", len(passes) > 1)
	r.Set("cuts_executed", totalCuts)
	r.SetExhaustive(false)
	r.Set("exhaustive_over_cut_points_per_encoding", true)
	_ = fmt.Sprint
	finish(r)
}
