package main

import (
	"encoding/hex"
	"fmt"
	"math/rand"
	"strings"
	"time"

	"verif/harness/core"
	"verif/harness/schema"
)

func init() { checks["C13"] = runC13 }

type c13Case struct {
	name   string
	class  string
	site   string
	text   string
	reject bool // must be rejected
	base   int  // index of the base case (for mutants), -1 for bases
}

func hasImport(s *schema.Schema) bool {
	for _, d := range s.Defs {
		if d.Kind == "import" {
			return true
		}
	}
	return false
}

func runC13(args []string) {
	r := core.NewRun("C13", "exploration")
	r.Rule = "base schemas (construct and ordering families + seeded random schemas, all first confirmed accepted by the real ReadFile+Generate) x every single " +
		"semantic-error injection of the statement's classes at every applicable site (undefined type per field site and type shape, duplicate definition/field/option names, duplicate enum values " +
		"in another spelling, duplicate indices, index zero, duplicate opcodes in all spelling pairs, enum value one below/above each base's range, const literal of each wrong kind, primitive names, " +
		"struct self-containment: direct, cycles of length 2..64 in several declaration orders, inside a union branch, cycles among inline union members with 0/1/3 top-level structs, the branch-located injections in a member with discriminator 0); positive recursion cases and long acyclic chains must be accepted within the CPU budget. " +
		"distinct_nontrivial = distinct (error class, site) pairs injected into an accepted base + positive cases."
	r.Assume = []string{"out-of-range numeric consts are only warned about (pinned by TestReadFileErrorWarnings) and are not demanded to be errors",
		"self-containment through arrays/maps is not demanded either way", "CPU budget 20 s per ReadFile+Generate call"}
	bin, err := buildWorker("feworker")
	if err != nil {
		fatalSetup(r, err)
	}
	rng := rand.New(rand.NewSource(r.Seed))
	var named []schema.Named
	for _, n := range schema.ConstructFamily() {
		if !hasImport(n.S) {
			named = append(named, n)
		}
	}
	for _, n := range schema.OrderFamily() {
		if !hasImport(n.S) && strings.HasPrefix(n.Name, "pair/") {
			named = append(named, n)
		}
	}
	nrand := 40
	if r.Thorough() {
		nrand = 400
	}
	for i := 0; i < nrand; i++ {
		g := &schema.Gen{R: rng, Cfg: schema.GenCfg{Comments: false, Attrs: true, Consts: true, MaxDefs: 7, MaxDepth: 3}}
		named = append(named, schema.Named{Name: fmt.Sprintf("random/%d/%d", r.Seed, i), S: g.Random()})
	}
	lay := schema.Layouts[0]
	var cases []c13Case
	for _, n := range named {
		bi := len(cases)
		cases = append(cases, c13Case{name: n.Name, class: "base", text: schema.Print(n.S, lay), base: -1})
		for mi, m := range schema.Mutations(n.S) {
			cases = append(cases, c13Case{name: n.Name, class: m.Class, site: m.Site, text: schema.Print(m.S, lay), reject: true, base: bi})
			// the same injection in another layout (rotating): what Validate sees must not depend on
			// blank lines after attributes, CRLF, one-line bodies ...
			l2 := schema.Layouts[1+mi%(len(schema.Layouts)-1)]
			cases = append(cases, c13Case{name: n.Name, class: m.Class, site: m.Site, text: schema.Print(m.S, l2), reject: true, base: bi})
		}
	}
	for _, it := range schema.RecursionFamily() {
		cl := "accepted recursion (positive)"
		if it.Reject {
			cl = "struct necessarily containing itself"
		}
		cases = append(cases, c13Case{name: "recursion/" + it.Name, class: cl, site: it.Name, text: schema.Print(it.S, lay), reject: it.Reject, base: -1})
	}

	type outc struct {
		res  genRes
		dead string
	}
	results := make([]outc, len(cases))
	core.Pool(nproc(), func(int) *core.Child {
		ch := feChild(bin)
		ch.CPUBudget = 20 * time.Second
		return ch
	}, len(cases), func(i int) any {
		return map[string]any{"op": "gen", "text": hex.EncodeToString([]byte(cases[i].text)), "settings": map[string]any{"package": "pkg", "combined": true}}
	}, func(i int, ch *core.Child, res core.Result) {
		if res.Outcome != "post" {
			results[i].dead = res.Outcome + ": " + core.FatalCause(res.Stderr)
			return
		}
		var p struct {
			R genRes `json:"r"`
		}
		jsonUnmarshal(res.Post, &p)
		p.R.Out = ""
		results[i].res = p.R
	})

	sampled := 0
	basesRejected := 0
	for i, c := range cases {
		o := results[i]
		if c.class == "base" {
			if o.dead != "" || o.res.Outcome != "ok" || o.res.ReadErr != "" || o.res.HasErr {
				basesRejected++
				r.Hist("base not accepted (its mutants are skipped)")
			}
			continue
		}
		if c.base >= 0 {
			b := results[c.base]
			if b.dead != "" || b.res.Outcome != "ok" || b.res.ReadErr != "" || b.res.HasErr {
				continue
			}
		}
		loc := map[string]string{"class": c.class, "site": c.site}
		detail := map[string]any{"base": c.name, "text": c.text}
		if strings.HasPrefix(o.dead, "wall") {
			r.Inconclusive("wall watchdog")
			continue
		}
		r.Eval(c.class + "@" + c.site)
		if o.dead != "" {
			detail["cause"] = o.dead
			r.Violate("validation does not terminate / crashes", loc, detail)
			continue
		}
		if o.res.Outcome != "ok" {
			detail["outcome"] = o.res.Outcome
			detail["site"] = o.res.Site
			r.Violate("validation panics", loc, detail)
			continue
		}
		rejected := o.res.ReadErr != "" || o.res.HasErr
		if c.reject && !rejected {
			r.Violate("unworkable schema accepted", loc, detail)
			continue
		}
		if !c.reject && rejected {
			detail["error"] = o.res.ReadErr + o.res.Err
			r.Violate("terminating recursion rejected", loc, detail)
			continue
		}
		if sampled < 5 && c.reject && len(c.text) < 400 && i%37 == 0 {
			sampled++
			r.Sample(map[string]any{"class": c.class, "site": c.site, "schema": c.text, "rejected_with": core.Short(o.res.ReadErr+o.res.Err, 120)})
		}
	}
	r.Set("base_schemas", len(named))
	r.Set("bases_not_accepted", basesRejected)
	finish(r)
}
