package main

import (
	"math"
	"math/rand"
	"sort"
)

// boundaryBits returns boundary bit patterns for an integer/float of the given width in bits.
func boundaryBits(bits int) []uint64 {
	mask := uint64(math.MaxUint64)
	if bits < 64 {
		mask = (uint64(1) << bits) - 1
	}
	set := map[uint64]struct{}{}
	add := func(v uint64) { set[v&mask] = struct{}{} }
	add(0)
	add(1)
	add(2)
	add(mask)
	add(mask - 1)
	add(uint64(1) << (bits - 1))       // sign bit / min signed
	add((uint64(1) << (bits - 1)) - 1) // max signed
	add((uint64(1) << (bits - 1)) + 1)
	for i := 0; i < bits; i++ {
		p := uint64(1) << i
		add(p)
		add(p - 1)
		add(p + 1)
	}
	add(0x5555555555555555)
	add(0xAAAAAAAAAAAAAAAA)
	add(0x0102030405060708)
	add(0x8877665544332211)
	add(0x00FF00FF00FF00FF)
	out := make([]uint64, 0, len(set))
	for v := range set {
		out = append(out, v)
	}
	sort.Slice(out, func(i, j int) bool { return out[i] < out[j] })
	return out
}

func floatBits32() []uint64 {
	v := []uint32{0, 0x80000000, 0x7f800000, 0xff800000, 0x7fc00000, 0x7fc00001, 0x7fa00001, 0xffc12345, 0x7f800001,
		0x00000001, 0x007fffff, 0x00800000, 0x7f7fffff, 0xff7fffff, 0x3f800000, 0xbf800000, 0x40490fdb}
	out := make([]uint64, len(v))
	for i, x := range v {
		out[i] = uint64(x)
	}
	return out
}

func floatBits64() []uint64 {
	return []uint64{0, 0x8000000000000000, 0x7ff0000000000000, 0xfff0000000000000, 0x7ff8000000000000, 0x7ff8000000000001,
		0x7ff4000000000001, 0xfff8123456789abc, 0x7ff0000000000001, 1, 0x000fffffffffffff, 0x0010000000000000,
		0x7fefffffffffffff, 0xffefffffffffffff, 0x3ff0000000000000, 0xbff0000000000000, 0x400921fb54442d18}
}

func randBits(rng *rand.Rand, bits, n int) []uint64 {
	mask := uint64(math.MaxUint64)
	if bits < 64 {
		mask = (uint64(1) << bits) - 1
	}
	out := make([]uint64, n)
	for i := range out {
		out[i] = rng.Uint64() & mask
	}
	return out
}

// maxTick is the largest |tick| (100 ns units) whose nanosecond value fits an int64.
const maxTick = int64(math.MaxInt64 / 100)

func dateTicks(rng *rand.Rand, n int) []int64 {
	out := []int64{0, 1, -1, 2, 10, 10000000, -10000000, 864000000000, 16725225600000000 /* 2023 */, 17000000000000000,
		maxTick, -maxTick, maxTick - 1, -maxTick + 1, 1 << 32, -(1 << 32), 1<<53 + 1}
	for i := 0; i < n; i++ {
		out = append(out, rng.Int63n(2*maxTick)-maxTick)
	}
	return out
}

func newRand(seed int64) *rand.Rand { return rand.New(rand.NewSource(seed)) }
