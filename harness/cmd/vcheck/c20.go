package main

import (
	"encoding/binary"
	"encoding/hex"
	"encoding/json"
	"fmt"
	"math/rand"
	"strings"
	"time"

	"verif/harness/core"
)

func init() { checks["C20"] = runC20 }

var c20Types = []string{"bool", "byte", "uint8", "uint16", "int16", "uint32", "int32", "uint64", "int64", "float32", "float64", "date"}
var c20Width = map[string]int{"bool": 1, "byte": 1, "uint8": 1, "uint16": 2, "int16": 2, "uint32": 4, "int32": 4,
	"uint64": 8, "int64": 8, "float32": 4, "float64": 8, "date": 8, "guid": 16}

type c20post struct {
	R json.RawMessage `json:"r"`
}

func c20Patterns(typ string, rng *rand.Rand, thorough bool) (pats []uint64, exhaustive bool) {
	nrand := 20000
	if thorough {
		nrand = 200000
	}
	switch typ {
	case "bool":
		return []uint64{0, 1}, true
	case "byte", "uint8":
		for i := 0; i < 256; i++ {
			pats = append(pats, uint64(i))
		}
		return pats, true
	case "uint16", "int16":
		for i := 0; i < 65536; i++ {
			pats = append(pats, uint64(i))
		}
		return pats, true
	case "uint32", "int32":
		return append(boundaryBits(32), randBits(rng, 32, nrand)...), false
	case "uint64", "int64":
		return append(boundaryBits(64), randBits(rng, 64, nrand)...), false
	case "float32":
		return append(append(floatBits32(), boundaryBits(32)...), randBits(rng, 32, nrand)...), false
	case "float64":
		return append(append(floatBits64(), boundaryBits(64)...), randBits(rng, 64, nrand)...), false
	case "date":
		for _, t := range dateTicks(rng, nrand/4) {
			pats = append(pats, uint64(t))
		}
		return pats, false
	}
	return nil, false
}

func swapGUID(g []byte) []byte {
	return []byte{g[3], g[2], g[1], g[0], g[5], g[4], g[7], g[6], g[8], g[9], g[10], g[11], g[12], g[13], g[14], g[15]}
}

func runC20(args []string) {
	r := core.NewRun("C20", "exploration")
	r.Rule = "iohelp primitives driven directly in a child process (plain and -asan builds): write/read round trips per bit pattern " +
		"(exhaustive for bool/byte/uint8/int16/uint16, boundary+seeded random beyond) compared with an encoding/binary reference; " +
		"string readers on every buffer length x count; fixed-width slice readers/writers on short exact-size buffers; " +
		"stream readers with k fresh bytes then a failure, twice after different earlier reads (non-interference); " +
		"strings/byte arrays of 0..70001 bytes (around the 4096-byte pre-allocation limit and its doublings) on a stream followed by further values, through 6 read schedules, complete and cut inside the payload. " +
		"distinct = (oracle, type, cell) where cell is the pattern class / buffer length / (k, error kind)."
	r.Assume = []string{"the reference layout is encoding/binary little endian; date = int64 ticks of 100ns since the Unix epoch, tick 0 <-> zero time",
		"ASan red zones follow exactly-sized heap buffers (Go -asan build)"}
	rng := rand.New(rand.NewSource(r.Seed))

	builds := []struct {
		name  string
		flags []string
	}{{"plain", nil}, {"asan", []string{"-asan"}}}
	obsBuilds := []string{}
	for _, bld := range builds {
		bin, err := buildWorker("ioworker", bld.flags...)
		if err != nil {
			if bld.name == "asan" {
				r.Inconclusive("asan build unavailable: " + core.Short(err.Error(), 200))
				continue
			}
			fatalSetup(r, err)
		}
		obsBuilds = append(obsBuilds, bld.name)
		ch := &core.Child{Name: "ioworker-" + bld.name, Argv: []string{bin}, CPUBudget: 60 * time.Second,
			Env: []string{"ASAN_OPTIONS=detect_leaks=0:halt_on_error=1:abort_on_error=0"}}
		c20Build(r, ch, bld.name, rng)
		ch.Close()
	}
	r.Set("builds", obsBuilds)
	finish(r)
}

var c20LastRaw json.RawMessage

func c20Do(r *core.Run, ch *core.Child, build string, item map[string]any, clausePrefix string, locus map[string]string) (map[string]any, bool) {
	res := ch.Do(item)
	switch res.Outcome {
	case "post":
		var p c20post
		json.Unmarshal(res.Post, &p)
		var m map[string]any
		json.Unmarshal(p.R, &m)
		c20LastRaw = p.R
		if he, ok := m["harness_error"]; ok {
			r.Inconclusive("harness error: " + fmt.Sprint(he))
			return nil, false
		}
		if hp, ok := m["harness_panic"]; ok {
			r.Inconclusive("harness panic: " + fmt.Sprint(hp))
			return nil, false
		}
		return m, true
	case "fatal":
		cause := core.FatalCause(res.Stderr)
		l := copyLocus(locus)
		l["build"] = build
		r.Hist("fatal")
		r.Violate(clausePrefix+": process died", l, map[string]any{"item": item, "cause": cause, "stderr_tail": core.Short(tail(res.Stderr, 1500), 1500)})
	case "cpu-budget":
		l := copyLocus(locus)
		l["build"] = build
		r.Violate(clausePrefix+": cpu budget exceeded", l, map[string]any{"item": item})
	default:
		r.Inconclusive("wall watchdog")
	}
	return nil, false
}

func tail(s string, n int) string {
	if len(s) <= n {
		return s
	}
	return s[len(s)-n:]
}

func copyLocus(l map[string]string) map[string]string {
	o := map[string]string{}
	for k, v := range l {
		o[k] = v
	}
	return o
}

func patClass(typ string, p uint64) string {
	w := c20Width[typ] * 8
	mask := ^uint64(0)
	if w < 64 {
		mask = (1 << w) - 1
	}
	switch {
	case p == 0:
		return "zero"
	case p == mask:
		return "ones"
	case p == 1<<(w-1):
		return "signbit"
	case strings.HasPrefix(typ, "float") && isNaNBits(typ, p):
		return "nan"
	case p < 256:
		return "small"
	case p>>(w-1) == 1:
		return "high"
	}
	return "mid"
}

func isNaNBits(typ string, p uint64) bool {
	if typ == "float32" {
		return p&0x7f800000 == 0x7f800000 && p&0x007fffff != 0
	}
	return p&0x7ff0000000000000 == 0x7ff0000000000000 && p&0x000fffffffffffff != 0
}

func c20Build(r *core.Run, ch *core.Child, build string, rng *rand.Rand) {
	// ---- (1) round trips --------------------------------------------------------------
	allExh := true
	for _, typ := range c20Types {
		pats, exh := c20Patterns(typ, rng, r.Thorough())
		if !exh {
			allExh = false
		}
		w := c20Width[typ]
		for off := 0; off < len(pats); off += 8192 {
			end := off + 8192
			if end > len(pats) {
				end = len(pats)
			}
			chunk := pats[off:end]
			m, ok := c20Do(r, ch, build, map[string]any{"op": "rt", "type": typ, "pats": chunk}, "roundtrip", map[string]string{"type": typ})
			if !ok {
				continue
			}
			if m["outcome"] != "ok" {
				r.Violate("roundtrip: panic", map[string]string{"type": typ, "build": build}, m)
				continue
			}
			wb, _ := hex.DecodeString(m["wb"].(string))
			ws, _ := hex.DecodeString(m["ws"].(string))
			rb, _ := hex.DecodeString(m["rb"].(string))
			rs, _ := hex.DecodeString(m["rs"].(string))
			var dates, dates2 []struct {
				Zero bool
				Nano int64
				Off  int
				Loc  string
			}
			if typ == "date" {
				var dd struct {
					Dates, Dates2 []struct {
						Zero bool
						Nano int64
						Off  int
						Loc  string
					}
				}
				json.Unmarshal(c20LastRaw, &dd)
				dates, dates2 = dd.Dates, dd.Dates2
			}
			if errs, _ := m["errs"].([]any); len(errs) > 0 {
				r.Violate("roundtrip: error state set on a complete read/write", map[string]string{"type": typ, "build": build}, m["errs"])
			}
			if len(wb) != len(chunk)*w || len(ws) != len(chunk)*w || len(rb) != len(chunk)*8 || len(rs) != len(chunk)*8 {
				r.Violate("roundtrip: wrong number of bytes written", map[string]string{"type": typ, "build": build},
					map[string]any{"n": len(chunk), "wb": len(wb), "ws": len(ws), "width": w})
				continue
			}
			for i, p := range chunk {
				var exp [8]byte
				binary.LittleEndian.PutUint64(exp[:], p)
				e := exp[:w]
				gb := wb[i*w : (i+1)*w]
				gs := ws[i*w : (i+1)*w]
				cls := patClass(typ, p)
				key := "rt/" + typ + "/" + cls + "/" + build
				r.Eval(key)
				if i == 0 && off == 0 && build == "plain" {
					r.Sample(map[string]any{"oracle": "roundtrip", "type": typ, "pattern": fmt.Sprintf("%#x", p), "slice_writer": hex.EncodeToString(gb), "stream_writer": hex.EncodeToString(gs)})
				}
				if string(gb) != string(e) {
					r.Violate("roundtrip: slice writer bytes differ from reference", map[string]string{"type": typ, "class": cls},
						map[string]any{"pattern": fmt.Sprintf("%#x", p), "got": hex.EncodeToString(gb), "want": hex.EncodeToString(e), "build": build})
				}
				if string(gs) != string(e) {
					r.Violate("roundtrip: stream writer bytes differ from reference", map[string]string{"type": typ, "class": cls},
						map[string]any{"pattern": fmt.Sprintf("%#x", p), "got": hex.EncodeToString(gs), "want": hex.EncodeToString(e), "build": build})
				}
				if typ == "date" {
					tick := int64(p)
					for which, ds := range [][]struct {
						Zero bool
						Nano int64
						Off  int
						Loc  string
					}{dates, dates2} {
						if i >= len(ds) {
							continue
						}
						d := ds[i]
						okv := false
						if tick == 0 {
							okv = d.Zero
						} else {
							okv = !d.Zero && d.Nano == tick*100 && d.Off == 0 && d.Loc == "UTC"
						}
						if !okv {
							r.Violate("roundtrip: date read back differs", map[string]string{"type": typ, "reader": []string{"slice", "stream"}[which]},
								map[string]any{"tick": tick, "got": d, "build": build})
						}
					}
					continue
				}
				vb := binary.LittleEndian.Uint64(rb[i*8:])
				vs := binary.LittleEndian.Uint64(rs[i*8:])
				if vb != p {
					r.Violate("roundtrip: slice reader value differs", map[string]string{"type": typ, "class": cls},
						map[string]any{"pattern": fmt.Sprintf("%#x", p), "got": fmt.Sprintf("%#x", vb), "build": build})
				}
				if vs != p {
					r.Violate("roundtrip: stream reader value differs", map[string]string{"type": typ, "class": cls},
						map[string]any{"pattern": fmt.Sprintf("%#x", p), "got": fmt.Sprintf("%#x", vs), "build": build})
				}
			}
		}
	}
	r.Set("roundtrip_exhaustive_types", []string{"bool", "byte", "uint8", "uint16", "int16"})
	_ = allExh

	// ---- (2) GUID ---------------------------------------------------------------------
	var guids []string
	asc := make([]byte, 16)
	for i := range asc {
		asc[i] = byte(i)
	}
	guids = append(guids, hex.EncodeToString(asc), strings.Repeat("00", 16), strings.Repeat("ff", 16))
	for i := 0; i < 16; i++ {
		g := make([]byte, 16)
		g[i] = byte(0x81 + i)
		guids = append(guids, hex.EncodeToString(g))
	}
	for i := 0; i < 200; i++ {
		g := make([]byte, 16)
		rng.Read(g)
		guids = append(guids, hex.EncodeToString(g))
	}
	if m, ok := c20Do(r, ch, build, map[string]any{"op": "guid", "hex": guids}, "guid", map[string]string{"type": "guid"}); ok {
		if m["outcome"] != "ok" {
			r.Violate("guid: panic", map[string]string{"type": "guid", "build": build}, m)
		} else {
			var res []struct{ WB, WS, RB, RS, Err string }
			jb, _ := json.Marshal(m["res"])
			json.Unmarshal(jb, &res)
			for i, o := range res {
				g, _ := hex.DecodeString(guids[i])
				want := hex.EncodeToString(swapGUID(g))
				cls := "random"
				if i < 3 {
					cls = []string{"ascending", "zero", "ones"}[i]
				} else if i < 19 {
					cls = fmt.Sprintf("onehot%d", i-3)
				}
				r.Eval("guid/" + cls + "/" + build)
				if i == 0 && build == "plain" {
					r.Sample(map[string]any{"oracle": "guid", "value": guids[i], "slice_writer": o.WB, "stream_writer": o.WS})
				}
				if o.WB != want || o.WS != want {
					r.Violate("guid: wire bytes are not the field-swapped order", map[string]string{"type": "guid", "class": cls},
						map[string]any{"guid": guids[i], "slice": o.WB, "stream": o.WS, "want": want, "build": build})
				}
				if o.RB != guids[i] || o.RS != guids[i] || o.Err != "" {
					r.Violate("guid: read back differs", map[string]string{"type": "guid", "class": cls},
						map[string]any{"guid": guids[i], "slice": o.RB, "stream": o.RS, "err": o.Err, "build": build})
				}
			}
		}
	}

	// ---- (2b) long strings / byte arrays on a stream, followed by further values ------
	// lengths around the reader's pre-allocation limit (4096) and its doublings; the stream
	// must stand exactly behind the value afterwards and the following reads must see their bytes
	for _, n := range []int{0, 1, 100, 4095, 4096, 4097, 5000, 8191, 8192, 8193, 12288, 16384, 16385, 70001} {
		for _, typ := range []string{"string", "bytes"} {
			for _, variant := range []string{"full", "1", "3", "1000", "4096", "half"} {
				if variant == "1" && n > 3000 {
					continue
				}
				loc := map[string]string{"type": typ, "reader": "stream/" + variant, "length": fmt.Sprint(n)}
				m, ok := c20Do(r, ch, build, map[string]any{"op": "strseq", "type": typ, "variant": variant, "k": n, "err": "eof"}, "long-value", loc)
				if !ok {
					continue
				}
				r.Eval("strseq/" + typ + "/" + variant + "/" + fmt.Sprint(n) + "/" + build)
				det := map[string]any{"result": m, "build": build}
				switch {
				case m["outcome"] != "ok":
					r.Violate("long-value: panic", loc, det)
				case m["body_ok"] != true || fmt.Sprint(m["err_after_string"]) != "":
					r.Violate("long-value: valid input not read back", loc, det)
				case int(m["pos_after"].(float64)) != 4+n:
					r.Violate("long-value: stream position after the value is not its end", loc, det)
				case uint32(m["next32"].(float64)) != 0xA1B2C3D4 || uint16(m["next16"].(float64)) != 0x55AA || fmt.Sprint(m["err"]) != "":
					r.Violate("long-value: the values that follow are not read back", loc, det)
				case m["alloc"].(float64) > float64(64<<10+8*n):
					r.Violate("long-value: allocation out of proportion", loc, det)
				}
				if n < 2 {
					continue
				}
				// cut inside the payload: error state set, nothing but a prefix returned, bounded allocation
				for _, cut := range []int{4 + n/2, 4 + n - 1, 5} {
					for _, ek := range []string{"eof", "generic"} {
						loc := map[string]string{"type": typ, "reader": "stream/" + variant, "length": fmt.Sprint(n), "cut": "payload", "err": ek}
						m, ok := c20Do(r, ch, build, map[string]any{"op": "strseq", "type": typ, "variant": variant, "k": n, "lo": cut, "err": ek}, "long-value", loc)
						if !ok {
							continue
						}
						r.Eval("strseq-cut/" + typ + "/" + variant + "/" + fmt.Sprint(n) + "/" + fmt.Sprint(cut) + ek + "/" + build)
						det := map[string]any{"result": m, "build": build, "cut": cut}
						switch {
						case m["outcome"] != "ok":
							r.Violate("long-value: panic on a truncated stream", loc, det)
						case fmt.Sprint(m["err_after_string"]) == "":
							r.Violate("long-value: truncated stream not reflected in error state", loc, det)
						case m["prefix_ok"] != true || int(m["len"].(float64)) > n:
							r.Violate("long-value: bytes returned that the stream never delivered", loc, det)
						case m["alloc"].(float64) > float64(64<<10+8*n):
							r.Violate("long-value: allocation out of proportion", loc, det)
						}
					}
				}
			}
		}
	}

	// ---- (3) string readers on every buffer length x count ---------------------------
	bodies := [][]byte{{}, []byte("a"), []byte("hello"), []byte("\xff\xfe\x00z"), []byte(strings.Repeat("xyz0123456", 30))}
	for _, body := range bodies {
		L := len(body)
		counts := []uint32{0, 1, uint32(L), uint32(L + 1), uint32(L + 2), 1 << 16, 1<<31 - 1, 1 << 31, 1<<32 - 1, 1<<32 - 4, 1<<32 - 5}
		if L > 0 {
			counts = append(counts, uint32(L-1))
		}
		for _, c := range counts {
			full := make([]byte, 4+L)
			binary.LittleEndian.PutUint32(full, c)
			copy(full[4:], body)
			lens := []int{}
			for n := 0; n <= 4+L; n++ {
				if L > 40 && n > 8 && n < 4+L-3 && n != 4+int(c) && n != 3+int(c) {
					continue
				}
				lens = append(lens, n)
			}
			for _, n := range lens {
				buf := full[:n]
				for _, variant := range []string{"safe", "shared"} {
					loc := map[string]string{"reader": variant, "buflen": lenClass(n, 4+int64(c)), "count": countClass(c, L)}
					m, ok := c20Do(r, ch, build, map[string]any{"op": "str", "variant": variant, "hex": []string{hex.EncodeToString(buf)}}, "string", loc)
					if !ok {
						continue
					}
					r.Eval("str/" + variant + "/" + loc["buflen"] + "/" + loc["count"] + "/" + build)
					out := m["outcome"].(string)
					if out != "ok" {
						r.Violate("string: panic instead of error", loc, map[string]any{"buf": hex.EncodeToString(buf), "outcome": out, "site": m["site"], "build": build})
						continue
					}
					errS, _ := m["err"].(string)
					need := 4 + int64(c)
					if int64(n) < 4 || int64(n) < need {
						if errS == "" {
							r.Violate("string: out-of-bounds count accepted", loc, map[string]any{"buf": hex.EncodeToString(buf), "result": m, "build": build})
						}
					} else {
						s, _ := hex.DecodeString(m["s"].(string))
						want := buf[4 : 4+c]
						if len(want) > 96 {
							want = want[:96]
						}
						if errS != "" || string(s) != string(want) || int(m["len"].(float64)) != int(c) {
							r.Violate("string: valid input not read back", loc, map[string]any{"buf": hex.EncodeToString(buf), "result": m, "build": build})
						}
					}
				}
			}
			// valid-only variants
			if int64(c) <= int64(L) {
				buf := full
				for _, variant := range []string{"must", "mustshared", "stream", "stream1", "stream3"} {
					loc := map[string]string{"reader": variant, "count": countClass(c, L)}
					m, ok := c20Do(r, ch, build, map[string]any{"op": "str", "variant": variant, "hex": []string{hex.EncodeToString(buf)}}, "string", loc)
					if !ok {
						continue
					}
					r.Eval("str/" + variant + "/" + loc["count"] + "/" + build)
					s, _ := hex.DecodeString(fmt.Sprint(m["s"]))
					errS, _ := m["err"].(string)
					want := buf[4 : 4+c]
					if len(want) > 96 {
						want = want[:96]
					}
					if m["outcome"] != "ok" || errS != "" || string(s) != string(want) || int(m["len"].(float64)) != int(c) {
						r.Violate("string: valid input not read back", loc, map[string]any{"buf": hex.EncodeToString(buf), "result": m, "build": build})
					}
				}
				// stream with truncated body: error state must be set
				if c > 0 {
					loc := map[string]string{"reader": "stream", "count": countClass(c, L), "cut": "body"}
					m, ok := c20Do(r, ch, build, map[string]any{"op": "str", "variant": "stream", "hex": []string{hex.EncodeToString(buf[:4+c-1])}}, "string", loc)
					if ok {
						r.Eval("str/stream-trunc/" + loc["count"] + "/" + build)
						if errS, _ := m["err"].(string); errS == "" || m["outcome"] != "ok" {
							r.Violate("string: truncated stream not reflected in error state", loc, map[string]any{"result": m, "build": build})
						}
					}
				}
			}
		}
	}

	// ---- (4) short buffers for fixed-width slice readers/writers ---------------------
	for _, typ := range append(append([]string{}, c20Types...), "guid") {
		w := c20Width[typ]
		for k := 0; k < w; k++ {
			for _, variant := range []string{"read", "write"} {
				loc := map[string]string{"type": typ, "op": variant, "k": fmt.Sprint(k)}
				m, ok := c20Do(r, ch, build, map[string]any{"op": "short", "type": typ, "variant": variant, "k": k}, "short-buffer", loc)
				if !ok {
					continue
				}
				r.Eval("short/" + typ + "/" + variant + "/" + fmt.Sprint(k) + "/" + build)
				out := m["outcome"].(string)
				if !strings.HasPrefix(out, "panic:") {
					r.Violate("short-buffer: returned normally from a buffer shorter than the width", loc, map[string]any{"result": m, "build": build})
				}
			}
		}
	}

	// ---- (5) failing stream reads: error state + non-interference --------------------
	poisonA, poisonB := "1011121314151617", "2021222324252627"
	strA, strB := "1011010010110100", "2021020120210201"
	fresh := "c1c2c3c4c5c6c7c8c9cacbcccdcecfd0"
	for _, typ := range append(append([]string{}, c20Types...), "guid", "string") {
		w := c20Width[typ]
		if typ == "string" {
			w = 4
		}
		for k := 0; k < w; k++ {
			for _, ek := range []string{"eof", "ueof", "generic"} {
				loc := map[string]string{"type": typ, "k": fmt.Sprint(k), "err": ek}
				a, b := poisonA, poisonB
				fr := fresh
				if typ == "string" {
					a, b = strA, strB
					fr = "05000000" + fresh
				}
				ma, ok1 := c20Do(r, ch, build, map[string]any{"op": "fail", "type": typ, "k": k, "a": a, "hex": []string{fr}, "err": ek}, "failed-read", loc)
				mb, ok2 := c20Do(r, ch, build, map[string]any{"op": "fail", "type": typ, "k": k, "a": b, "hex": []string{fr}, "err": ek}, "failed-read", loc)
				if !ok1 || !ok2 {
					continue
				}
				r.Eval("fail/" + typ + "/" + fmt.Sprint(k) + "/" + ek + "/" + build)
				if typ == "uint32" && k == 2 && ek == "eof" && build == "plain" {
					r.Sample(map[string]any{"oracle": "failed-read non-interference", "type": typ, "k": k, "after_poison_A": ma["val"], "after_poison_B": mb["val"], "err": ma["err"]})
				}
				if ma["outcome"] != "ok" || mb["outcome"] != "ok" {
					r.Violate("failed-read: panic", loc, map[string]any{"a": ma, "b": mb, "build": build})
					continue
				}
				ea, _ := ma["err"].(string)
				eb, _ := mb["err"].(string)
				if ea == "" || eb == "" || strings.HasPrefix(ea, "early:") {
					r.Violate("failed-read: failure not reflected in the reader's error state", loc, map[string]any{"a": ma, "b": mb, "build": build})
				}
				if ma["val"] != mb["val"] {
					r.Violate("failed-read: returned value depends on an earlier read (left-over bytes)", loc,
						map[string]any{"after_poison_" + a: ma["val"], "after_poison_" + b: mb["val"], "build": build})
				}
			}
		}
	}
}

func lenClass(n int, need int64) string {
	switch {
	case n < 4:
		return fmt.Sprintf("hdr%d", n)
	case int64(n) == need:
		return "exact"
	case int64(n) == need-1:
		return "need-1"
	case int64(n) < need:
		return "short"
	case int64(n) == need+1:
		return "need+1"
	}
	return "long"
}

func countClass(c uint32, L int) string {
	switch {
	case int(c) == L:
		return "=len"
	case c == 0:
		return "0"
	case int64(c) < int64(L):
		return "<len"
	case int64(c) == int64(L)+1:
		return "len+1"
	case c >= 1<<31:
		return ">=2^31"
	case c >= 1<<16:
		return ">=2^16"
	}
	return ">len"
}
