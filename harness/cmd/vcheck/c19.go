package main

import (
	"bytes"
	"encoding/json"
	"fmt"
	"os"
	"os/exec"
	"path/filepath"
	"sort"
	"strings"
	"sync"
	"syscall"
	"time"

	"verif/harness/core"
	"verif/harness/model"
	"verif/harness/schema"
)

func init() { checks["C19"] = runC19 }

const c19Sentinel = "// SENTINEL: previous contents of the target file\npackage keep\n"

type cliResult struct {
	exit    int
	killed  bool
	stdout  string
	stderr  string
	timeout bool
}

func runCLI(dir string, argv []string, inject string, pre string) cliResult {
	var cmd *exec.Cmd
	full := argv
	if inject != "" {
		full = append([]string{"strace", "-f", "-o", "/dev/null", "-e", "trace=" + strings.SplitN(inject, ":", 2)[0], "-e", "inject=" + inject}, argv...)
	}
	if pre != "" {
		cmd = exec.Command("sh", "-c", pre+"; exec \"$@\"", "sh")
		cmd.Args = append(cmd.Args, full...)
	} else {
		cmd = exec.Command(full[0], full[1:]...)
	}
	cmd.Dir = dir
	cmd.Env = append(os.Environ(), "GOMAXPROCS=1")
	var so, se bytes.Buffer
	cmd.Stdout, cmd.Stderr = &so, &se
	done := make(chan error, 1)
	if err := cmd.Start(); err != nil {
		return cliResult{exit: -1, stderr: "start: " + err.Error()}
	}
	go func() { done <- cmd.Wait() }()
	var res cliResult
	select {
	case err := <-done:
		if err != nil {
			if ee, ok := err.(*exec.ExitError); ok {
				ws := ee.Sys().(syscall.WaitStatus)
				if ws.Signaled() {
					res.killed = true
					res.exit = 128 + int(ws.Signal())
				} else {
					res.exit = ws.ExitStatus()
				}
			} else {
				res.exit = -1
			}
		}
	case <-time.After(60 * time.Second):
		cmd.Process.Kill()
		<-done
		res.timeout = true
	}
	res.stdout, res.stderr = so.String(), se.String()
	// strace reports a tracee killed by a signal by killing itself the same way or exiting 128+n
	if res.exit == 128+9 {
		res.killed = true
	}
	return res
}

// countSyscalls runs argv under strace and returns how many times each traced syscall ran.
func countSyscalls(dir string, argv []string, sys []string) map[string]int {
	out := filepath.Join(dir, ".strace-count")
	cmd := exec.Command("strace", append([]string{"-f", "-o", out, "-e", "trace=" + strings.Join(sys, ",")}, argv...)...)
	cmd.Dir = dir
	cmd.Env = append(os.Environ(), "GOMAXPROCS=1")
	cmd.Run()
	b, _ := os.ReadFile(out)
	os.Remove(out)
	counts := map[string]int{}
	for _, ln := range strings.Split(string(b), "\n") {
		f := strings.Fields(ln)
		if len(f) < 2 {
			continue
		}
		call := f[1]
		if i := strings.IndexByte(call, '('); i > 0 {
			counts[call[:i]]++
		}
	}
	return counts
}

func errorReported(r cliResult) bool {
	text := r.stdout + r.stderr
	for _, ln := range strings.Split(text, "\n") {
		s := strings.TrimSpace(ln)
		if s == "" || strings.HasPrefix(s, "warning:") || strings.HasPrefix(s, "+++") || strings.HasPrefix(s, "strace:") {
			continue
		}
		return true
	}
	return false
}

type c19Cell struct {
	tool   string
	input  string
	fault  string
	inject string
	pre    string
	setup  func(dir string) (argv []string, target string, original []byte)
	// full: content of a fault-free successful run (nil when the run is expected to fail)
	full []byte
}

func runC19(args []string) {
	r := core.NewRun("C19", "fault_enumeration")
	r.Rule = "the real bebopc-go and bebopfmt binaries (built from /repo) run in scratch directories where the target file pre-exists with sentinel contents. Input cells: valid schemas, every file of testdata/invalid that ReadFile rejects, " +
		"validation-failing schemas, missing imports, a nonexistent path, a directory, a directory of several files formatted twice. Fault cells (strace -e inject, GOMAXPROCS=1): for EVERY k up to the number of openat/write/rename*/close/fsync " +
		"system calls a fault-free run makes, the k-th call fails (EACCES/ENOSPC/EIO) and, separately, the process is killed (SIGKILL) at it; plus RLIMIT_FSIZE. Oracle: a failed or killed run leaves the target's previous contents (a kill may also leave the complete new contents); " +
		"exit status != 0 iff an error message was printed; a successful bebopfmt -w leaves a file that the real ReadFile parses to the same schema as before (comments aside). " +
		"Near-language inputs (text-level edits of two fixed schemas: line breaks after keywords/attributes, doubled line ends ...) are classed by the real ReadFile at run time: rejected ones are inputs the tool cannot process, accepted ones must keep their meaning. " +
		"Several files in one bebopfmt -w run: one of them cannot be rewritten (250-byte name, in every position), or the k-th openat/write/rename/close/fchmod/unlinkat call of the three-file run fails or kills the process, for every k; afterwards every file must be byte-identical to before or denote its own schema. " +
		"distinct_nontrivial = distinct (tool, input class, fault kind, syscall, k) cells."
	r.Assume = []string{"strace can attach (ptrace available) and counts the k-th call per thread: the tools run with GOMAXPROCS=1 so that all their I/O happens on one thread",
		"a left-over temporary file after a kill is not a violation"}
	if _, err := exec.LookPath("strace"); err != nil {
		r.Inconclusive("strace not available")
	}
	binDir := filepath.Join(work(), "cli")
	os.MkdirAll(binDir, 0o755)
	for _, tool := range []string{"bebopc-go", "bebopfmt"} {
		cmd := exec.Command("go", "build", "-o", filepath.Join(binDir, tool), "./main/"+tool)
		cmd.Dir = core.Repo()
		if b, err := cmd.CombinedOutput(); err != nil {
			fatalSetup(r, fmt.Errorf("build %s: %v\n%s", tool, err, b))
		}
	}
	bebopc, bebopfmt := filepath.Join(binDir, "bebopc-go"), filepath.Join(binDir, "bebopfmt")
	febin, err := buildWorker("feworker")
	if err != nil {
		fatalSetup(r, err)
	}
	parser := feChild(febin)
	defer parser.Close()
	var pmu sync.Mutex
	parse := func(text []byte) (*model.File, bool) {
		pmu.Lock()
		defer pmu.Unlock()
		res := parser.Do(map[string]any{"op": "rf", "from": 0, "texts": []string{fmt.Sprintf("%x", text)}, "full": true})
		if res.Outcome != "post" || len(res.Res) == 0 {
			return nil, false
		}
		var l struct {
			R rfRes `json:"r"`
		}
		json.Unmarshal(res.Res[0], &l)
		if l.R.Outcome != "ok" || l.R.HasErr || l.R.File == nil {
			return nil, false
		}
		return l.R.File, true
	}

	validSchema := schema.Print(&schema.Schema{Defs: []*schema.Def{
		{Kind: "enum", Name: "Kind1", Base: "uint8", Options: []schema.Option{{Name: "OptA", Lit: "1"}, {Name: "OptB", Lit: "2"}}},
		{Kind: "struct", Name: "Point", Fields: []schema.Field{sf("x", schema.Simple("float32")), sf("ys", schema.ArrayOf(schema.ArrayOf(schema.Simple("int32"))))}},
		{Kind: "message", Name: "Msg1", OpCode: &schema.OpCode{Str: "abcd"}, Fields: []schema.Field{smf(1, "p", schema.Simple("Point")), smf(2, "m", schema.MapOf("string", schema.Simple("Kind1")))}},
		{Kind: "union", Name: "Uni1", Branches: []schema.Branch{{Index: 1, Def: &schema.Def{Kind: "struct", Name: "BrA", Fields: []schema.Field{sf("a", schema.Simple("guid"))}}}}},
	}}, schema.Layouts[4])
	dupSchema := "struct Twice {\n    int32 a;\n}\nstruct Twice {\n    int32 b;\n}\n"
	missingImport := "import \"./nowhere.bop\"\nstruct A {\n    int32 a;\n}\n"
	syntaxErr := "struct A {\n    int32 a\n}\n"

	var cells []*c19Cell
	// ---- bebopc-go
	compile := func(input, text string) func(dir string) ([]string, string, []byte) {
		return func(dir string) ([]string, string, []byte) {
			in := "in.bop"
			switch input {
			case "nonexistent-input":
				in = "does-not-exist.bop"
			case "directory-as-input":
				os.Mkdir(filepath.Join(dir, "adir"), 0o755)
				in = "adir"
			default:
				os.WriteFile(filepath.Join(dir, "in.bop"), []byte(text), 0o644)
			}
			os.WriteFile(filepath.Join(dir, "out.go"), []byte(c19Sentinel), 0o644)
			return []string{bebopc, "-i", in, "-o", "out.go", "-package", "gen", "-combined-imports"}, filepath.Join(dir, "out.go"), []byte(c19Sentinel)
		}
	}
	cInputs := []struct{ name, text string }{{"valid", validSchema}, {"syntax-error", syntaxErr}, {"validation-error", dupSchema}, {"missing-import", missingImport},
		{"nonexistent-input", ""}, {"directory-as-input", ""}}
	for _, in := range cInputs {
		cells = append(cells, &c19Cell{tool: "bebopc-go", input: in.name, fault: "none", setup: compile(in.name, in.text)})
	}
	// ---- bebopfmt -w
	format := func(text string) func(dir string) ([]string, string, []byte) {
		return func(dir string) ([]string, string, []byte) {
			os.WriteFile(filepath.Join(dir, "file.bop"), []byte(text), 0o644)
			return []string{bebopfmt, "-w", "file.bop"}, filepath.Join(dir, "file.bop"), []byte(text)
		}
	}
	cells = append(cells, &c19Cell{tool: "bebopfmt", input: "valid", fault: "none", setup: format(validSchema)})
	baseDir := filepath.Join(core.Repo(), "testdata", "base")
	if ents, err := os.ReadDir(baseDir); err == nil {
		for _, e := range ents {
			if strings.HasSuffix(e.Name(), ".bop") {
				if b, err := os.ReadFile(filepath.Join(baseDir, e.Name())); err == nil {
					if _, ok := parse(b); ok {
						cells = append(cells, &c19Cell{tool: "bebopfmt", input: "valid:testdata/base/" + e.Name(), fault: "none", setup: format(string(b))})
					}
				}
			}
		}
	}
	for _, l := range schema.Layouts {
		g := &schema.Gen{R: newRand(r.Seed + int64(len(l.Name))), Cfg: schema.GenCfg{Imports: true, Comments: true, Attrs: true, Consts: true, MaxDefs: 6, MaxDepth: 3}}
		cells = append(cells, &c19Cell{tool: "bebopfmt", input: "valid:generated/" + l.Name, fault: "none", setup: format(schema.Print(g.Random(), l))})
	}
	// a fixed schema with doc comments above and trailing comments behind fields, options, members and
	// definitions, under every layout (LF and CRLF, block and line docs)
	doc := func(t string) []schema.Doc { return []schema.Doc{{Text: " " + t}} }
	commented := &schema.Schema{Defs: []*schema.Def{
		{Kind: "enum", Name: "Kind2", Docs: doc("kinds of thing"), Options: []schema.Option{{Name: "OptA", Lit: "1", Docs: doc("first")}, {Name: "OptB", Lit: "2", Docs: doc("second")}}},
		{Kind: "struct", Name: "User", Docs: doc("a user"), Fields: []schema.Field{
			{Name: "id", Type: schema.Simple("guid"), Docs: doc("identity"), Trailing: " trailing one"},
			{Name: "name", Type: schema.Simple("string"), Trailing: " trailing two"},
			{Name: "k", Type: schema.Simple("Kind2"), Docs: doc("its kind")}}, Trailing: " after the struct"},
		{Kind: "message", Name: "Update", Docs: doc("an update"), Fields: []schema.Field{
			{Name: "u", Type: schema.Simple("User"), Index: 1, Docs: doc("who")},
			{Name: "at", Type: schema.Simple("date"), Index: 2, Docs: doc("when"), Trailing: " trailing three"}}},
		{Kind: "union", Name: "Uni2", Docs: doc("either"), Branches: []schema.Branch{
			{Index: 1, Docs: doc("branch one"), Def: &schema.Def{Kind: "struct", Name: "BrX", Fields: []schema.Field{{Name: "a", Type: schema.Simple("int32"), Docs: doc("a")}}}},
			{Index: 2, Docs: doc("branch two"), Def: &schema.Def{Kind: "message", Name: "BrY", Fields: []schema.Field{{Name: "b", Type: schema.Simple("string"), Index: 1, Trailing: " trailing four"}}}}}},
	}}
	for _, l := range schema.Layouts {
		cells = append(cells, &c19Cell{tool: "bebopfmt", input: "valid:commented/" + l.Name, fault: "none", setup: format(schema.Print(commented, l))})
	}
	// consts between the other definitions: under the one-line layouts a const shares its line with
	// what follows it (another const, an [opcode] struct, a readonly struct, an enum)
	dense := &schema.Schema{Defs: []*schema.Def{
		{Kind: "const", Name: "first", CType: "int32", Lit: "1"},
		{Kind: "const", Name: "second", CType: "string", Lit: `"two; three"`},
		{Kind: "struct", Name: "AfterConst", OpCode: &schema.OpCode{Int: 2, IntLit: "2"}, Fields: []schema.Field{sf("x", schema.Simple("int32"))}},
		{Kind: "const", Name: "third", CType: "float64", Lit: "3.5"},
		{Kind: "struct", Name: "Frozen", ReadOnly: true, Fields: []schema.Field{sf("y", schema.Simple("guid"))}},
		{Kind: "const", Name: "fourth", CType: "bool", Lit: "true"},
		{Kind: "enum", Name: "Small", Base: "uint8", Options: []schema.Option{{Name: "OptA", Lit: "1"}}},
		{Kind: "const", Name: "fifth", CType: "uint64", Lit: "18446744073709551615"},
		{Kind: "message", Name: "Last", Fields: []schema.Field{smf(1, "z", schema.Simple("Small"))}},
		{Kind: "const", Name: "sixth", CType: "guid", Lit: `"e215a946-b26f-4567-a276-13136f0a1708"`},
	}}
	for _, l := range schema.Layouts {
		cells = append(cells, &c19Cell{tool: "bebopfmt", input: "valid:consts-between-definitions/" + l.Name, fault: "none", setup: format(schema.Print(dense, l))})
	}
	// near-language texts (a line break between a keyword or attribute and what follows, doubled line
	// ends, ...): the real ReadFile decides the class - rejected texts are inputs the tool cannot
	// process (it must fail and leave the file alone), accepted ones must keep their meaning
	for _, base := range []struct {
		name string
		s    *schema.Schema
	}{{"consts-between-definitions", dense}, {"commented", commented}} {
		for _, l := range schema.Layouts {
			for _, p := range textPerturbations() {
				if p.layout != l.Name {
					continue
				}
				orig := schema.Print(base.s, l)
				t := p.f(orig)
				if t == orig {
					continue
				}
				class := "invalid:near-language/"
				if _, ok := parse([]byte(t)); ok {
					class = "valid:near-language/"
				}
				cells = append(cells, &c19Cell{tool: "bebopfmt", input: class + base.name + "+" + p.name, fault: "none", setup: format(t)})
				// the compiler on the same text: a rejected text must fail and leave the -o file alone; an
				// accepted one either compiles or fails cleanly (Generate may still refuse it)
				cclass := "syntax-error:near-language/"
				if strings.HasPrefix(class, "valid") {
					cclass = "near-language-accepted:"
				}
				cells = append(cells, &c19Cell{tool: "bebopc-go", input: cclass + base.name + "+" + p.name, fault: "none", setup: compile("near-language", t)})
			}
		}
	}
	cells = append(cells, &c19Cell{tool: "bebopfmt", input: "valid:everything-on-one-line", fault: "none",
		setup: format("const int32 a = 1; const int32 b = 2; [opcode(2)] struct S { int32 x; } const string c = \"x\"; readonly struct R { int32 y; } enum E { A = 1; } const bool d = true; message M { 1 -> int32 z; }\n")})
	invDir := filepath.Join(core.Repo(), "testdata", "invalid")
	if ents, err := os.ReadDir(invDir); err == nil {
		for _, e := range ents {
			if !strings.HasSuffix(e.Name(), ".bop") {
				continue
			}
			b, err := os.ReadFile(filepath.Join(invDir, e.Name()))
			if err != nil {
				continue
			}
			if _, ok := parse(b); ok {
				continue // ReadFile accepts it (validation-level problems): not an invalid input for bebopfmt
			}
			cells = append(cells, &c19Cell{tool: "bebopfmt", input: "invalid:testdata/invalid/" + e.Name(), fault: "none", setup: format(string(b))})
			cells = append(cells, &c19Cell{tool: "bebopc-go", input: "invalid:testdata/invalid/" + e.Name(), fault: "none", setup: compile("syntax-error", string(b))})
		}
	}
	cells = append(cells, &c19Cell{tool: "bebopfmt", input: "nonexistent-input", fault: "none", setup: func(dir string) ([]string, string, []byte) {
		os.WriteFile(filepath.Join(dir, "other.bop"), []byte(validSchema), 0o644)
		return []string{bebopfmt, "-w", "missing.bop"}, filepath.Join(dir, "other.bop"), []byte(validSchema)
	}})

	// very long lines (string const, deprecation message, comment) must survive bebopfmt -w
	longLine := func(n int) string {
		return "struct Keep1 {\n    int32 a;\n}\nconst string blob = \"" + strings.Repeat("x", n) + "\";\nmessage Keep2 {\n    1 -> string s;\n}\n// " + strings.Repeat("c", n) + "\nenum Keep3 {\n    A = 1;\n}\n"
	}
	for _, n := range []int{1000, 70000, 200000} {
		cells = append(cells, &c19Cell{tool: "bebopfmt", input: fmt.Sprintf("valid:long-line-%d", n), fault: "none", setup: format(longLine(n))})
		cells = append(cells, &c19Cell{tool: "bebopc-go", input: fmt.Sprintf("valid:long-line-%d", n), fault: "none", setup: compile("valid", longLine(n))})
	}
	// the target reached through a symbolic link: the file behind the link is what must survive
	symlinked := func(inner func(dir string) ([]string, string, []byte)) func(dir string) ([]string, string, []byte) {
		return func(dir string) ([]string, string, []byte) {
			argv, tgt, orig := inner(dir)
			real := tgt + ".real"
			os.Rename(tgt, real)
			os.Symlink(filepath.Base(real), tgt)
			// judged through the path the tool was given (reads follow the link)
			return argv, tgt, orig
		}
	}
	bigValid := longLine(60000)
	for _, tg := range []struct {
		tool  string
		setup func(dir string) ([]string, string, []byte)
	}{{"bebopc-go", symlinked(compile("valid", bigValid))}, {"bebopfmt", symlinked(format(bigValid))}, {"bebopc-go", symlinked(compile("validation-error", dupSchema))}} {
		cells = append(cells, &c19Cell{tool: tg.tool, input: "symlinked-target", fault: "none", setup: tg.setup})
		cells = append(cells, &c19Cell{tool: tg.tool, input: "symlinked-target", fault: "rlimit-fsize", pre: "ulimit -f 1", setup: tg.setup})
		for _, k := range []int{1, 2, 3, 5, 8} {
			cells = append(cells, &c19Cell{tool: tg.tool, input: "symlinked-target", fault: "error:write", inject: fmt.Sprintf("write:error=ENOSPC:when=%d", k), setup: tg.setup})
			cells = append(cells, &c19Cell{tool: tg.tool, input: "symlinked-target", fault: "kill:write", inject: fmt.Sprintf("write:signal=KILL:when=%d", k), setup: tg.setup})
		}
	}

	// fault-free counts for the two injection targets
	sys := []string{"openat", "write", "rename", "renameat", "renameat2", "close", "fsync", "fdatasync", "ftruncate", "unlinkat", "fchmod", "fchmodat"}
	errFor := map[string]string{"openat": "EACCES", "write": "ENOSPC", "rename": "EIO", "renameat": "EIO", "renameat2": "EIO", "close": "EIO", "fsync": "EIO", "fdatasync": "EIO", "ftruncate": "EIO", "unlinkat": "EIO", "fchmod": "EIO", "fchmodat": "EIO"}
	type target struct {
		tool  string
		input string
		setup func(dir string) ([]string, string, []byte)
	}
	for _, tg := range []target{{"bebopc-go", "valid", compile("valid", validSchema)}, {"bebopfmt", "valid", format(validSchema)}, {"bebopc-go", "validation-error", compile("validation-error", dupSchema)}} {
		d := filepath.Join(work(), "c19count")
		os.RemoveAll(d)
		os.MkdirAll(d, 0o755)
		argv, _, _ := tg.setup(d)
		counts := countSyscalls(d, argv, sys)
		os.RemoveAll(d)
		for _, s := range sys {
			n := counts[s]
			step := 1
			if !r.Thorough() && s == "write" && n > 120 {
				step = 3 // every 3rd write call in quick (all in thorough); first and last ten always
			}
			for k := 1; k <= n; k++ {
				if step > 1 && k > 10 && k < n-10 && k%step != 0 {
					continue
				}
				cells = append(cells, &c19Cell{tool: tg.tool, input: tg.input, fault: "error:" + s, inject: fmt.Sprintf("%s:error=%s:when=%d", s, errFor[s], k), setup: tg.setup})
				cells = append(cells, &c19Cell{tool: tg.tool, input: tg.input, fault: "kill:" + s, inject: fmt.Sprintf("%s:signal=KILL:when=%d", s, k), setup: tg.setup})
			}
		}
		cells = append(cells, &c19Cell{tool: tg.tool, input: tg.input, fault: "rlimit-fsize", pre: "ulimit -f 1", setup: tg.setup})
	}

	// fault-free full outputs (for kill cells)
	fullOf := map[string][]byte{}
	for _, key := range []string{"bebopc-go/valid", "bebopfmt/valid"} {
		d := filepath.Join(work(), "c19full")
		os.RemoveAll(d)
		os.MkdirAll(d, 0o755)
		var setup func(string) ([]string, string, []byte)
		if key == "bebopc-go/valid" {
			setup = compile("valid", validSchema)
		} else {
			setup = format(validSchema)
		}
		argv, tgt, _ := setup(d)
		res := runCLI(d, argv, "", "")
		if res.exit == 0 {
			fullOf[key], _ = os.ReadFile(tgt)
		}
		os.RemoveAll(d)
	}

	var wg sync.WaitGroup
	next := make(chan int)
	var idm sync.Mutex
	id := 0
	for w := 0; w < nproc(); w++ {
		wg.Add(1)
		go func() {
			defer wg.Done()
			for i := range next {
				c := cells[i]
				idm.Lock()
				id++
				d := filepath.Join(work(), "c19", fmt.Sprintf("r%06d", id))
				idm.Unlock()
				os.MkdirAll(d, 0o755)
				argv, tgt, orig := c.setup(d)
				res := runCLI(d, argv, c.inject, c.pre)
				after, rerr := os.ReadFile(tgt)
				var full []byte
				if c.input == "valid" {
					full = fullOf[c.tool+"/valid"]
				}
				c19Judge(r, c, res, orig, after, rerr, full, parse, argv)
				os.RemoveAll(d)
			}
		}()
	}
	for i := range cells {
		next <- i
	}
	close(next)
	wg.Wait()
	c19Directory(r, bebopfmt, validSchema, parse)
	c19SeveralFilesFaults(r, bebopfmt, parse)
	c19MixedAndAbsent(r, bebopfmt, bebopc, validSchema, dupSchema, missingImport, syntaxErr, parse)
	r.Set("cells", len(cells))
	finish(r)
}

func c19Judge(r *core.Run, c *c19Cell, res cliResult, orig, after []byte, rerr error, full []byte, parse func([]byte) (*model.File, bool), argv []string) {
	inputClass := strings.SplitN(c.input, ":", 2)[0]
	faultKind := strings.SplitN(c.fault, ":", 2)[0]
	sysname := ""
	if i := strings.IndexByte(c.fault, ':'); i >= 0 {
		sysname = c.fault[i+1:]
	}
	r.Eval(c.tool + "|" + c.input + "|" + c.fault + "|" + c.inject)
	loc := map[string]string{"tool": c.tool, "input": inputClass, "fault": faultKind, "syscall": sysname}
	detail := map[string]any{"tool": c.tool, "input": c.input, "fault": c.fault, "inject": c.inject, "argv": argv[1:], "exit": res.exit, "killed": res.killed,
		"stdout": core.Short(res.stdout, 400), "stderr": core.Short(res.stderr, 400), "target_bytes_after": len(after), "target_bytes_before": len(orig)}
	if res.timeout {
		r.Inconclusive("tool run timed out")
		return
	}
	if strings.Contains(res.stderr, "ptrace") || strings.Contains(res.stderr, "PTRACE") {
		r.Inconclusive("strace could not attach")
		return
	}
	failed := res.exit != 0 || res.killed
	unchanged := rerr == nil && bytes.Equal(after, orig)
	complete := full != nil && rerr == nil && bytes.Equal(after, full)
	if failed {
		if !unchanged && !(res.killed && complete) {
			what := "partial-or-other"
			if rerr != nil {
				what = "missing"
			} else if len(after) == 0 {
				what = "emptied"
			} else if complete {
				what = "complete-new-contents"
			}
			loc["target"] = what
			detail["target_head"] = core.Short(string(after), 200)
			r.Violate("failed run damaged the target file", loc, detail)
			return
		}
	}
	if !res.killed {
		rep := errorReported(res)
		// an injected write fault may hit the very write that prints the message
		msgMayBeLost := faultKind == "error" && sysname == "write"
		if (res.exit != 0) != rep && !(msgMayBeLost && res.exit != 0) {
			if res.exit != 0 {
				loc["mismatch"] = "nonzero-exit-without-message"
			} else {
				loc["mismatch"] = "message-with-exit-0"
			}
			r.Violate("exit status and error reporting disagree", loc, detail)
			return
		}
	}
	if !failed {
		switch {
		case inputClass == "invalid" || inputClass == "syntax-error" || inputClass == "validation-error" || inputClass == "missing-import" || inputClass == "nonexistent-input" || inputClass == "directory-as-input":
			r.Violate("tool reports success on an input it cannot process", loc, detail)
			return
		case c.tool == "bebopfmt":
			of, ok1 := parse(orig)
			af, ok2 := parse(after)
			if !ok1 {
				r.Inconclusive("original does not parse")
				return
			}
			if !ok2 {
				detail["rewritten"] = core.Short(string(after), 1500)
				detail["original"] = core.Short(string(orig), 1500)
				r.Violate("bebopfmt -w succeeded but the rewritten file does not parse", loc, detail)
				return
			}
			if d := schema.Diff(*of, *af, schema.DiffOpts{IgnoreComments: true, IgnoreFileName: true}); d != "" {
				detail["diff"] = d
				detail["rewritten"] = core.Short(string(after), 1500)
				r.Violate("bebopfmt -w succeeded but the rewritten file denotes a different schema", loc, detail)
				return
			}
		case c.tool == "bebopc-go":
			if unchanged {
				r.Violate("bebopc-go reports success but wrote nothing", loc, detail)
				return
			}
			if full != nil && c.inject != "" && !complete {
				detail["target_head"] = core.Short(string(after), 200)
				r.Violate("bebopc-go reports success but the output is incomplete", loc, detail)
				return
			}
		}
	}
	if r.NeedSample() && (c.inject != "" || c.input != "valid") {
		r.Sample(map[string]any{"tool": c.tool, "input": c.input, "fault": c.fault, "inject": c.inject, "exit": res.exit, "killed": res.killed, "target_unchanged": unchanged, "error_reported": errorReported(res)})
	}
}

// c19Directory: bebopfmt -w over a directory and several files, twice in a row.
func c19Directory(r *core.Run, bebopfmt, valid string, parse func([]byte) (*model.File, bool)) {
	d := filepath.Join(work(), "c19dir")
	os.RemoveAll(d)
	os.MkdirAll(filepath.Join(d, "schemas"), 0o755)
	files := map[string]string{
		"a_first.bop":  valid,
		"b_second.bop": "struct   Messy{int32   a;string b;}\nmessage M2 {1->int32 x;}\n",
		"c_third.bop":  "enum E : uint16 {\n  A = 1;\n  B = 2;\n}\nconst int32 k = 5;\n",
	}
	for n, t := range files {
		os.WriteFile(filepath.Join(d, "schemas", n), []byte(t), 0o644)
	}
	names := make([]string, 0, len(files))
	for n := range files {
		names = append(names, n)
	}
	sort.Strings(names)
	runs := [][]string{{bebopfmt, "-w", "schemas"}, {bebopfmt, "-w", "schemas"}, {bebopfmt, "-w", "schemas/a_first.bop", "schemas/b_second.bop", "schemas/c_third.bop"},
		{bebopfmt, "-w", "schemas/c_third.bop", "schemas/a_first.bop"}}
	for ri, argv := range runs {
		res := runCLI(d, argv, "", "")
		for _, n := range names {
			r.Eval(fmt.Sprintf("bebopfmt|directory|run%d|%s", ri, n))
			loc := map[string]string{"tool": "bebopfmt", "input": "several-files", "fault": "none", "run": fmt.Sprint(ri + 1)}
			after, _ := os.ReadFile(filepath.Join(d, "schemas", n))
			of, ok1 := parse([]byte(files[n]))
			af, ok2 := parse(after)
			detail := map[string]any{"argv": argv[1:], "file": n, "run": ri + 1, "exit": res.exit, "stdout": core.Short(res.stdout, 300), "rewritten": core.Short(string(after), 1200)}
			if res.exit != 0 {
				r.Violate("bebopfmt -w fails on valid files", loc, detail)
				continue
			}
			if !ok1 {
				continue
			}
			if !ok2 {
				r.Violate("bebopfmt -w succeeded but the rewritten file does not parse", loc, detail)
				continue
			}
			if df := schema.Diff(*of, *af, schema.DiffOpts{IgnoreComments: true, IgnoreFileName: true}); df != "" {
				detail["diff"] = df
				r.Violate("bebopfmt -w succeeded but the rewritten file denotes a different schema", loc, detail)
			}
		}
	}
	os.RemoveAll(d)
}

// c19MixedAndAbsent: (a) bebopfmt -w with several path arguments of which one cannot be processed,
// in every position: the error must be reported, the exit status non-zero, the bad file unchanged,
// the good files either unchanged or still the same schema; (b) bebopc-go runs that fail while the
// -o file does not exist yet: "keeps its previous contents" means there is still no such file.
func c19MixedAndAbsent(r *core.Run, bebopfmt, bebopc, valid, dup, missingImport, syntaxErr string, parse func([]byte) (*model.File, bool)) {
	good2 := "struct   Messy{int32   a;string b;}\nmessage M2 {1->int32 x;}\n"
	type arglist struct {
		name string
		argv []string
	}
	lists := []arglist{
		{"bad-then-good", []string{"bad.bop", "good.bop"}},
		{"good-then-bad", []string{"good.bop", "bad.bop"}},
		{"good-bad-good", []string{"good.bop", "bad.bop", "good2.bop"}},
		{"dir-with-bad-then-good", []string{"sub", "good.bop"}},
		{"good-then-dir-with-bad", []string{"good.bop", "sub"}},
		{"missing-then-good", []string{"nowhere.bop", "good.bop"}},
	}
	for _, al := range lists {
		d := filepath.Join(work(), "c19mixed")
		os.RemoveAll(d)
		os.MkdirAll(filepath.Join(d, "sub"), 0o755)
		files := map[string]string{"good.bop": valid, "good2.bop": good2, "bad.bop": syntaxErr, "sub/inner_bad.bop": syntaxErr, "sub/inner_good.bop": good2}
		for n, t := range files {
			os.WriteFile(filepath.Join(d, n), []byte(t), 0o644)
		}
		argv := append([]string{bebopfmt, "-w"}, al.argv...)
		res := runCLI(d, argv, "", "")
		r.Eval("bebopfmt|mixed-arguments|" + al.name)
		loc := map[string]string{"tool": "bebopfmt", "input": "mixed-arguments", "fault": "none", "arguments": al.name}
		detail := map[string]any{"argv": argv[1:], "exit": res.exit, "stdout": core.Short(res.stdout, 300), "stderr": core.Short(res.stderr, 300)}
		if res.timeout {
			r.Inconclusive("tool run timed out")
			continue
		}
		rep := errorReported(res)
		if !rep || res.exit == 0 {
			if rep {
				loc["mismatch"] = "message-with-exit-0"
			} else if res.exit != 0 {
				loc["mismatch"] = "nonzero-exit-without-message"
			} else {
				loc["mismatch"] = "silent-success"
			}
			r.Violate("exit status and error reporting disagree", loc, detail)
		}
		for n, t := range files {
			after, err := os.ReadFile(filepath.Join(d, n))
			if strings.Contains(n, "bad") {
				if err != nil || string(after) != t {
					detail["file"] = n
					r.Violate("failed run damaged the target file", loc, detail)
				}
				continue
			}
			of, ok1 := parse([]byte(t))
			af, ok2 := parse(after)
			if err != nil || !ok1 || !ok2 {
				detail["file"] = n
				r.Violate("bebopfmt -w succeeded but the rewritten file does not parse", loc, detail)
				continue
			}
			if df := schema.Diff(*of, *af, schema.DiffOpts{IgnoreComments: true, IgnoreFileName: true}); df != "" {
				detail["file"], detail["diff"] = n, df
				r.Violate("bebopfmt -w succeeded but the rewritten file denotes a different schema", loc, detail)
			}
		}
		os.RemoveAll(d)
	}
	// (b) failing bebopc-go runs without a pre-existing output file
	for _, in := range []struct{ name, text string }{{"validation-error", dup}, {"missing-import", missingImport}, {"syntax-error", syntaxErr},
		{"undefined-type", "struct A {\n    Nope n;\n}\n"}, {"duplicate-opcode", "[opcode(1)]\nstruct A {\n    int32 a;\n}\n[opcode(1)]\nstruct B {\n    int32 b;\n}\n"},
		{"recursive-struct", "struct A {\n    B b;\n}\nstruct B {\n    A a;\n}\n"}} {
		d := filepath.Join(work(), "c19absent")
		os.RemoveAll(d)
		os.MkdirAll(d, 0o755)
		os.WriteFile(filepath.Join(d, "in.bop"), []byte(in.text), 0o644)
		argv := []string{bebopc, "-i", "in.bop", "-o", "out.go", "-package", "gen", "-combined-imports"}
		res := runCLI(d, argv, "", "")
		r.Eval("bebopc-go|absent-target|" + in.name)
		loc := map[string]string{"tool": "bebopc-go", "input": in.name, "fault": "none", "target": "absent-before"}
		detail := map[string]any{"argv": argv[1:], "exit": res.exit, "stdout": core.Short(res.stdout, 300), "stderr": core.Short(res.stderr, 300)}
		if res.timeout {
			r.Inconclusive("tool run timed out")
			continue
		}
		if res.exit == 0 {
			r.Violate("tool reports success on an input it cannot process", loc, detail)
		}
		if st, err := os.Stat(filepath.Join(d, "out.go")); err == nil {
			detail["target_bytes_after"] = st.Size()
			loc["target"] = "created"
			r.Violate("failed run damaged the target file", loc, detail)
		}
		ents, _ := os.ReadDir(d)
		if len(ents) != 1 {
			var names []string
			for _, e := range ents {
				names = append(names, e.Name())
			}
			detail["directory_after"] = names
			loc["target"] = "left-over-files"
			r.Violate("failed run damaged the target file", loc, detail)
		}
		os.RemoveAll(d)
	}
}

// c19SeveralFilesFaults: bebopfmt -w over three files in one run while rewriting one of them fails -
// (a) a file whose name is so long that no temporary sibling can be created, in every position;
// (b) every counted openat/write/rename/close/fchmod call of the fault-free run failing or killing the
// process in turn. Whatever happens, every file must afterwards be byte-identical to what it was or
// denote the same schema as before (nothing of another file's text may end up in it), and the exit
// status must agree with whether an error was reported.
func c19SeveralFilesFaults(r *core.Run, bebopfmt string, parse func([]byte) (*model.File, bool)) {
	long := "long" + strings.Repeat("a", 242) + ".bop" // 250 bytes: ".<name>.tmpNNNN" exceeds NAME_MAX
	texts := map[string]string{
		"a_first.bop":  "struct   OnlyInA{int32   a;string b;}\nmessage AlsoInA {1->int32 x;}\n",
		"b_second.bop": "enum OnlyInB : uint16 {\n  A = 1;\n  B = 2;\n}\nconst int32 kb = 5;\n",
		"c_third.bop":  "union   OnlyInC{1->struct CBranch{guid g;}}\n",
		long:           "message   OnlyInLong{1->string   s;}\n",
	}
	type run struct {
		name   string
		files  []string
		inject string
	}
	runs := []run{
		{"long-name-first", []string{long, "a_first.bop", "b_second.bop"}, ""},
		{"long-name-middle", []string{"a_first.bop", long, "b_second.bop"}, ""},
		{"long-name-last", []string{"a_first.bop", "b_second.bop", long}, ""},
	}
	three := []string{"a_first.bop", "b_second.bop", "c_third.bop"}
	setup := func(d string, files []string) []string {
		os.RemoveAll(d)
		os.MkdirAll(d, 0o755)
		argv := []string{bebopfmt, "-w"}
		for _, n := range files {
			os.WriteFile(filepath.Join(d, n), []byte(texts[n]), 0o644)
			argv = append(argv, n)
		}
		return argv
	}
	sys := []string{"openat", "write", "rename", "renameat", "renameat2", "close", "fchmod", "fchmodat", "unlinkat"}
	errFor := map[string]string{"openat": "EACCES", "write": "ENOSPC", "close": "EIO"}
	cd := filepath.Join(work(), "c19several-count")
	counts := countSyscalls(cd, setup(cd, three), sys)
	os.RemoveAll(cd)
	for _, sname := range sys {
		e := errFor[sname]
		if e == "" {
			e = "EIO"
		}
		for k := 1; k <= counts[sname]; k++ {
			runs = append(runs, run{fmt.Sprintf("error:%s", sname), three, fmt.Sprintf("%s:error=%s:when=%d", sname, e, k)})
			runs = append(runs, run{fmt.Sprintf("kill:%s", sname), three, fmt.Sprintf("%s:signal=KILL:when=%d", sname, k)})
		}
	}
	r.Set("several_files_fault_runs", len(runs))
	var wg sync.WaitGroup
	next := make(chan int)
	for w := 0; w < nproc(); w++ {
		wg.Add(1)
		go func() {
			defer wg.Done()
			for i := range next {
				ru := runs[i]
				d := filepath.Join(work(), "c19several", fmt.Sprintf("r%04d", i))
				argv := setup(d, ru.files)
				res := runCLI(d, argv, ru.inject, "")
				r.Eval("bebopfmt|several-files-fault|" + ru.name + "|" + ru.inject)
				faultKind, sysname := ru.name, ""
				if j := strings.IndexByte(ru.name, ':'); j >= 0 {
					faultKind, sysname = ru.name[:j], ru.name[j+1:]
				}
				loc := map[string]string{"tool": "bebopfmt", "input": "several-files", "fault": faultKind, "syscall": sysname}
				shown := make([]string, len(argv)-1)
				for j, a := range argv[1:] {
					shown[j] = core.Short(a, 40)
				}
				detail := map[string]any{"argv": shown, "inject": ru.inject, "exit": res.exit, "killed": res.killed, "stdout": core.Short(res.stdout, 300), "stderr": core.Short(res.stderr, 300)}
				if res.timeout {
					r.Inconclusive("tool run timed out")
					os.RemoveAll(d)
					continue
				}
				if strings.Contains(res.stderr, "ptrace") || strings.Contains(res.stderr, "PTRACE") {
					r.Inconclusive("strace could not attach")
					os.RemoveAll(d)
					continue
				}
				if !res.killed {
					rep := errorReported(res)
					msgMayBeLost := faultKind == "error" && sysname == "write"
					if (res.exit != 0) != rep && !(msgMayBeLost && res.exit != 0) {
						r.Violate("exit status and error reporting disagree", loc, detail)
					}
					if ru.inject == "" && res.exit == 0 {
						r.Violate("tool reports success on an input it cannot process", loc, detail)
					}
				}
				for pos, n := range ru.files {
					after, err := os.ReadFile(filepath.Join(d, n))
					if err == nil && string(after) == texts[n] {
						continue
					}
					detail["file"], detail["position"] = core.Short(n, 40), pos+1
					detail["contents_after"] = core.Short(string(after), 600)
					if err != nil || (n == long && ru.inject == "") {
						r.Violate("failed run damaged the target file", loc, detail)
						continue
					}
					of, ok1 := parse([]byte(texts[n]))
					af, ok2 := parse(after)
					if !ok1 {
						r.Inconclusive("original does not parse")
						continue
					}
					if !ok2 {
						if res.exit != 0 || res.killed {
							r.Violate("failed run damaged the target file", loc, detail)
						} else {
							r.Violate("bebopfmt -w succeeded but the rewritten file does not parse", loc, detail)
						}
						continue
					}
					if df := schema.Diff(*of, *af, schema.DiffOpts{IgnoreComments: true, IgnoreFileName: true}); df != "" {
						detail["diff"] = df
						r.Violate("bebopfmt -w succeeded but the rewritten file denotes a different schema", loc, detail)
					}
				}
				os.RemoveAll(d)
			}
		}()
	}
	for i := range runs {
		next <- i
	}
	close(next)
	wg.Wait()
	os.RemoveAll(filepath.Join(work(), "c19several"))
}
