package main

import (
	"encoding/hex"
	"fmt"
	"os"
	"path/filepath"
	"regexp"
	"sort"
	"strings"
	"time"

	"verif/harness/core"
	"verif/harness/schema"
)

func init() { checks["C14"] = runC14 }

func c14BigSchema(goPackage string, imports []string, uses []string) string {
	mf6 := func() []schema.Field {
		return []schema.Field{smf(1, "alpha", schema.Simple("int32")), smf(2, "beta", schema.Simple("string")), smf(3, "gamma", schema.ArrayOf(schema.Simple("guid"))),
			smf(4, "delta", schema.MapOf("string", schema.Simple("int64"))), smf(5, "count", schema.Simple("date")), smf(6, "label", schema.Simple("float64")), smf(9, "owner", schema.Simple("Kind1"))}
	}
	s := &schema.Schema{}
	for _, im := range imports {
		s.Defs = append(s.Defs, &schema.Def{Kind: "import", Path: im})
	}
	if goPackage != "" {
		s.Defs = append(s.Defs, &schema.Def{Kind: "const", Name: "go_package", CType: "string", Lit: fmt.Sprintf("%q", goPackage)})
	}
	s.Defs = append(s.Defs,
		&schema.Def{Kind: "enum", Name: "Kind1", Base: "uint16", Options: []schema.Option{{Name: "OptA", Lit: "1"}, {Name: "OptB", Lit: "2"}, {Name: "OptC", Lit: "3"}}},
		&schema.Def{Kind: "const", Name: "limit", CType: "int32", Lit: "77"},
		&schema.Def{Kind: "struct", Name: "Point", Fields: []schema.Field{
			{Name: "x", Type: schema.Simple("float32"), Tags: []schema.Tag{{Key: "json", Value: "x"}, {Key: "db", Value: "px"}, {Key: "aaa", Value: "first"}}},
			{Name: "y", Type: schema.Simple("float32"), Tags: []schema.Tag{{Key: "zz", Value: "1"}, {Key: "bb", Value: "2"}}}, sf("k", schema.Simple("Kind1"))}},
		&schema.Def{Kind: "message", Name: "MsgA", OpCode: &schema.OpCode{Int: 11, IntLit: "11"}, Fields: mf6()},
		&schema.Def{Kind: "message", Name: "MsgB", Fields: append(mf6(), smf(12, "pt", schema.Simple("Point")), smf(13, "other", schema.Simple("MsgA")))},
		&schema.Def{Kind: "message", Name: "MsgC", Fields: mf6()},
		&schema.Def{Kind: "union", Name: "UniA", Branches: []schema.Branch{
			{Index: 1, Tags: []schema.Tag{{Key: "t", Value: "2"}, {Key: "a", Value: "1"}}, Def: &schema.Def{Kind: "struct", Name: "BrA", Fields: []schema.Field{sf("p", schema.Simple("Point"))}}},
			{Index: 2, Def: &schema.Def{Kind: "message", Name: "BrB", Fields: mf6()}},
			{Index: 3, Def: &schema.Def{Kind: "struct", Name: "BrC"}}, {Index: 4, Def: &schema.Def{Kind: "struct", Name: "BrD", Fields: []schema.Field{sf("m", schema.Simple("MsgA"))}}},
			{Index: 5, Def: &schema.Def{Kind: "message", Name: "BrE", Fields: mf6()}}, {Index: 6, Def: &schema.Def{Kind: "struct", Name: "BrF", Fields: []schema.Field{sf("u", schema.Simple("uint8"))}}}}},
	)
	if len(uses) > 0 {
		var fs []schema.Field
		for i, u := range uses {
			fs = append(fs, sf(fmt.Sprintf("imp%d", i), schema.Simple(u)))
		}
		s.Defs = append(s.Defs, &schema.Def{Kind: "struct", Name: "UsesImports", Fields: fs})
	}
	return schema.Print(s, schema.Layouts[0])
}

func c14Leaf(goPackage, typeName string, imports []string, uses []string) string {
	s := &schema.Schema{}
	for _, im := range imports {
		s.Defs = append(s.Defs, &schema.Def{Kind: "import", Path: im})
	}
	if goPackage != "" {
		s.Defs = append(s.Defs, &schema.Def{Kind: "const", Name: "go_package", CType: "string", Lit: fmt.Sprintf("%q", goPackage)})
	}
	fs := []schema.Field{sf("v", schema.Simple("int32"))}
	for i, u := range uses {
		fs = append(fs, sf(fmt.Sprintf("u%d", i), schema.Simple(u)))
	}
	s.Defs = append(s.Defs, &schema.Def{Kind: "struct", Name: typeName, Fields: fs},
		&schema.Def{Kind: "message", Name: typeName + "Msg", Fields: []schema.Field{smf(1, "a", schema.Simple("string")), smf(2, "b", schema.Simple(typeName))}},
		&schema.Def{Kind: "enum", Name: typeName + "Kind", Options: []schema.Option{{Name: "OptA", Lit: "1"}}})
	return schema.Print(s, schema.Layouts[0])
}

var raceBlockRe = regexp.MustCompile(`(?s)WARNING: DATA RACE.*?={18}`)
var frameRe = regexp.MustCompile(`\n  (\S+)\(`)

func runC14(args []string) {
	r := core.NewRun("C14", "exploration")
	r.Rule = "three schema trees on disk (one large file with >= 6-field messages/unions, tags and opcodes; the same with 4 imported files in combined mode; the same with go_package consts in separate mode using types of 3 imported packages) are parsed once in a -race build of the front-end worker; " +
		"ReadFile, Validate, Format and Generate under 6 option sets are called 5x sequentially and then from 8 goroutines x 20 repetitions sharing the one File value, in 3 fresh processes each (results are recorded per goroutine and merged after the join, so the monitor adds no ordering between calls; the last process of every tree runs barrier-aligned: all goroutines start the same operation together; each process walks the Generate option sets in a different rotation, odd processes backwards, so a value remembered from the first call of a process shows as a difference across processes). " +
		"Further trees with fewer repetitions: the extremes family, seeded random schemas, and a COLD tree in which 30 malformed/unusual texts go through ReadFile and Format from 8 goroutines with no sequential phase first. " +
		"Oracle: every call of the same operation returns byte-identical output and the same error nil-ness within and across processes; the File (exported fields, deep, and four spare slots behind every slice the worker gives it) is unchanged; zero 'WARNING: DATA RACE' blocks in the race logs. " +
		"The evidence counts call pairs that really overlapped in time; fewer than 100 overlapping pairs makes the race clause inconclusive. distinct_nontrivial = distinct (tree, operation, process) triples."
	r.Assume = []string{"Go race detector (happens-before): a race is reported when both accesses are executed, whatever the timing", "error text is not compared (the suite documents that the import-cycle text depends on map order)"}
	bin, err := buildWorker("feworker", "-race")
	if err != nil {
		fatalSetup(r, err)
	}
	root := filepath.Join(work(), "c14")
	write := func(rel, text string) string {
		p := filepath.Join(root, rel)
		os.MkdirAll(filepath.Dir(p), 0o755)
		os.WriteFile(p, []byte(text), 0o644)
		return p
	}
	type tree struct {
		name     string
		path     string
		combined bool
	}
	var trees []tree
	trees = append(trees, tree{"single-file", write("plain/root.bop", c14BigSchema("", nil, nil)), true})
	// combined: no go_package in the imported files
	write("comb/a.bop", c14Leaf("", "TypeA", []string{"./c.bop"}, []string{"TypeC"}))
	write("comb/b.bop", c14Leaf("", "TypeB", nil, nil))
	write("comb/c.bop", c14Leaf("", "TypeC", nil, nil))
	write("comb/d.bop", c14Leaf("", "TypeD", []string{"./b.bop"}, []string{"TypeB"}))
	trees = append(trees, tree{"imports-combined", write("comb/root.bop", c14BigSchema("", []string{"./a.bop", "./b.bop", "./d.bop"}, []string{"TypeA", "TypeB", "TypeC", "TypeD"})), true})
	// separate: every file its own package
	write("sep/a.bop", c14Leaf("example.com/gen/pa", "TypeA", []string{"./c.bop"}, []string{"TypeC"}))
	write("sep/b.bop", c14Leaf("example.com/gen/pb", "TypeB", nil, nil))
	write("sep/c.bop", c14Leaf("example.com/gen/pc", "TypeC", nil, nil))
	write("sep/d.bop", c14Leaf("example.com/gen/pd", "TypeD", nil, nil))
	trees = append(trees, tree{"imports-separate", write("sep/root.bop", c14BigSchema("example.com/gen/root", []string{"./a.bop", "./b.bop", "./d.bop"}, []string{"TypeA", "TypeB", "TypeD", "TypeAMsg", "TypeDKind"})), false})

	// further single-file trees: the extremes family (wide/deep records, inline union members used
	// as field types) and seeded random schemas; these get fewer repetitions
	smallFrom := len(trees)
	for _, nm := range schema.ExtremesFamily() {
		trees = append(trees, tree{nm.Name, write("x/"+strings.ReplaceAll(nm.Name, "/", "_")+".bop", schema.Print(nm.S, schema.Layouts[0])), true})
	}
	nrnd := 6
	if r.Thorough() {
		nrnd = 30
	}
	rng := newRand(r.Seed)
	for i := 0; i < nrnd; i++ {
		g := &schema.Gen{R: rng, Cfg: schema.GenCfg{Comments: true, Attrs: true, Consts: true, MaxDefs: 8, MaxDepth: 3}}
		trees = append(trees, tree{fmt.Sprintf("random-%d", i), write(fmt.Sprintf("x/random%d.bop", i), schema.Print(g.Random(), schema.Layouts[0])), true})
	}
	// malformed and unusual texts through ReadFile/Format, started COLD (no sequential phase first,
	// so lazily initialised shared state is first touched by concurrent calls)
	coldFrom := len(trees)
	trees = append(trees, tree{"malformed-texts-cold", write("cold/root.bop", "struct Cold {\n    int32 a;\n}\n"), true})
	var coldTexts []string
	for _, t := range []string{"-x", "/p", "-ix", "-", "/", "-i", "-in", "\"abc", "'ab", "[opco", "[opcode(", "struct A { int32 }", "struct A { int32 a; ", "enum E { A = ; }", "message M { 1 -> }",
		"union U { 1 -> struct A {} ", "const int32 x = 0x; ", "/* open", "// only a comment", "struct Ünï { int32 é; }", "import \"x", "readonly", "map[", "array[int32", "struct A{int32 a;}}", "\x00", "\xff\xfe", "1 -> 2", "=>", "<-"} {
		coldTexts = append(coldTexts, hex.EncodeToString([]byte(t)))
	}
	procs := 3
	G, R := 8, 20
	if r.Thorough() {
		procs, G, R = 6, 16, 40
	}
	logDir := filepath.Join(work(), "racelogs")
	os.MkdirAll(logDir, 0o755)
	totalOverlap := 0
	overlapByPair := map[string]int{}
	for ti, tr := range trees {
		procs, G, R := procs, G, R
		if ti >= smallFrom {
			procs, G, R = 2, 4, 4
		}
		seq := 5
		var texts []string
		if ti == coldFrom {
			procs, G, R, seq, texts = 4, 8, 3, 0, coldTexts
		}
		var settings []map[string]any
		for _, o := range []Opts{{}, {Shared: true}, {Private: true, Pointers: true}, {Unsafe: true, Shared: true}, {Tags: true, Unsafe: true, Pointers: true}, {Private: true, Tags: true}} {
			st := o.settings("pkg")
			st["combined"] = tr.combined
			settings = append(settings, st)
		}
		if ti == coldFrom {
			settings = settings[:1] // the cold tree is about ReadFile/Format
		}
		perProc := []map[string]string{} // op -> hash|err
		for p := 0; p < procs; p++ {
			// the budget is a bound on the whole stress operation (all goroutines' CPU under -race),
			// so it scales with the number of calls; exceeding it says nothing about purity and is
			// reported as inconclusive
			budget := time.Duration(120+2*G*R) * time.Second
			ch := &core.Child{Name: "feworker-race", Argv: []string{bin}, CPUBudget: budget,
				Env: []string{"GORACE=halt_on_error=0 log_path=" + filepath.Join(logDir, fmt.Sprintf("%s-%d", tr.name, p))}}
			var out struct {
				Calls []struct {
					Op    string `json:"op"`
					Hash  string `json:"hash"`
					IsErr bool   `json:"is_err"`
					T0    int64  `json:"t0"`
					T1    int64  `json:"t1"`
					G     int    `json:"g"`
				} `json:"calls"`
				SeqOK    bool              `json:"file_unchanged_after_sequential"`
				ConcOK   bool              `json:"file_unchanged_after_concurrent"`
				Caps     map[string][2]int `json:"caps"`
				ReadErr  string            `json:"read_err"`
				HarnessE string            `json:"harness_error"`
			}
			outcome, stderr := feOne(ch, map[string]any{"op": "purity", "path": tr.path, "settings_list": settings, "seq": seq, "g": G, "r": R, "texts": texts, "aligned": ti == coldFrom || p == procs-1, "rot": []int{0, 3, 1, 4, 2, 5}[p%6], "reverse": p%2 == 1}, &out)
			ch.Close()
			loc := map[string]string{"tree": tr.name}
			if strings.HasPrefix(outcome, "cpu-budget") || strings.HasPrefix(outcome, "wall") {
				r.Inconclusive(fmt.Sprintf("tree %s: stress operation stopped by the %s bound (G=%d R=%d)", tr.name, strings.SplitN(outcome, ":", 2)[0], G, R))
				continue
			}
			if outcome != "post" {
				r.Eval("")
				r.Violate("worker died during repeated/concurrent calls", loc, map[string]any{"cause": outcome + ": " + core.FatalCause(stderr), "stderr_tail": tail(stderr, 2000)})
				continue
			}
			if out.HarnessE != "" || out.ReadErr != "" {
				r.Inconclusive("schema tree not readable: " + out.HarnessE + out.ReadErr)
				continue
			}
			byOp := map[string]string{}
			for _, c := range out.Calls {
				key := fmt.Sprintf("%s|%s|%d", tr.name, c.Op, p)
				r.Eval(key)
				if c.Op == "PANIC" {
					r.Violate("panic during repeated/concurrent calls", loc, map[string]any{"panic": c.Hash})
					continue
				}
				sig := fmt.Sprintf("%s/err=%v", c.Hash, c.IsErr)
				if prev, ok := byOp[c.Op]; ok && prev != sig {
					l := copyLocus(loc)
					l["op"] = strings.SplitN(c.Op, "#", 2)[0]
					l["scope"] = "within-process"
					if c.G < 0 {
						l["mode"] = "sequential"
					} else {
						l["mode"] = "concurrent"
					}
					r.Violate("repeated calls return different results", l, map[string]any{"operation": c.Op, "one": prev, "other": sig, "settings": settings})
				} else if !ok {
					byOp[c.Op] = sig
				}
			}
			if !out.SeqOK {
				r.Violate("the File is modified by sequential calls", loc, map[string]any{"caps": out.Caps})
			} else if !out.ConcOK {
				r.Violate("the File is modified by concurrent calls", loc, map[string]any{"caps": out.Caps})
			}
			perProc = append(perProc, byOp)
			// overlap accounting over concurrent calls
			type iv struct {
				op     string
				t0, t1 int64
				g      int
			}
			var ivs []iv
			for _, c := range out.Calls {
				if c.G >= 0 {
					ivs = append(ivs, iv{strings.SplitN(c.Op, "#", 2)[0], c.T0, c.T1, c.G})
				}
			}
			sort.Slice(ivs, func(i, j int) bool { return ivs[i].t0 < ivs[j].t0 })
			for i := range ivs {
				for j := i + 1; j < len(ivs) && ivs[j].t0 < ivs[i].t1; j++ {
					if ivs[i].g != ivs[j].g {
						a, b := ivs[i].op, ivs[j].op
						if a > b {
							a, b = b, a
						}
						overlapByPair[a+"||"+b]++
						totalOverlap++
					}
				}
			}
			if r.NeedSample() && p == 0 {
				r.Sample(map[string]any{"tree": tr.name, "process": p, "calls": len(out.Calls), "distinct_results_per_operation": byOp, "file_slices_len_cap": out.Caps})
			}
		}
		for p := 1; p < len(perProc); p++ {
			for op, sig := range perProc[p] {
				if perProc[0][op] != sig {
					r.Violate("repeated calls return different results", map[string]string{"tree": tr.name, "op": strings.SplitN(op, "#", 2)[0], "scope": "across-processes"},
						map[string]any{"operation": op, "process0": perProc[0][op], fmt.Sprintf("process%d", p): sig})
				}
			}
		}
	}
	// race logs
	blocks := map[string]string{}
	nblocks := 0
	ents, _ := os.ReadDir(logDir)
	for _, e := range ents {
		b, _ := os.ReadFile(filepath.Join(logDir, e.Name()))
		for _, blk := range raceBlockRe.FindAllString(string(b), -1) {
			nblocks++
			fr := frameRe.FindAllStringSubmatch(blk, -1)
			var top []string
			for _, f := range fr {
				if strings.Contains(f[1], "bebop") {
					top = append(top, f[1])
				}
				if len(top) == 2 {
					break
				}
			}
			key := strings.Join(top, " <-> ")
			if _, ok := blocks[key]; !ok {
				blocks[key] = blk
			}
		}
	}
	r.Set("race_report_blocks", nblocks)
	r.Set("overlapping_call_pairs", totalOverlap)
	r.Set("overlapping_pairs_by_operation_pair", overlapByPair)
	for key, blk := range blocks {
		fnA := key
		r.Violate("data race", map[string]string{"frames": fnA}, map[string]any{"report": core.Short(blk, 3000)})
	}
	if totalOverlap < 100 {
		r.Inconclusive(fmt.Sprintf("only %d call pairs overlapped in time: race clause not decided", totalOverlap))
	}
	finish(r)
}
