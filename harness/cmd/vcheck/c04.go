package main

import (
	"encoding/hex"
	"fmt"
	"strings"

	"verif/harness/codec"
	"verif/harness/core"
	"verif/harness/schema"
)

func init() { checks["C04"] = runC04 }

type evoVariant struct {
	name    string
	added   []schema.Field // fields v2 adds (fresh higher indices)
	undep   bool           // v1 marks field 2 deprecated, v2 still transmits it
	emptyV1 bool           // v1's message declares no fields at all
}

func sf(n string, t schema.Type) schema.Field { return schema.Field{Name: n, Type: t} }
func smf(i int, n string, t schema.Type) schema.Field {
	return schema.Field{Name: n, Type: t, Index: i}
}

func evoVariants() []evoVariant {
	return []evoVariant{
		{name: "add-int", added: []schema.Field{smf(4, "added1", schema.Simple("int32"))}},
		{name: "add-string+array", added: []schema.Field{smf(4, "added1", schema.Simple("string")), smf(7, "added2", schema.ArrayOf(schema.Simple("int64")))}},
		{name: "add-struct+message+map", added: []schema.Field{smf(5, "added1", schema.Simple("Leaf")), smf(6, "added2", schema.Simple("LeafM")), smf(200, "added3", schema.MapOf("string", schema.Simple("Leaf")))}},
		{name: "undeprecate-only", undep: true},
		{name: "undeprecate+add", undep: true, added: []schema.Field{smf(9, "added1", schema.Simple("guid")), smf(10, "added2", schema.ArrayOf(schema.Simple("string")))}},
		{name: "add-255", added: []schema.Field{smf(255, "added1", schema.Simple("date"))}},
		{name: "fieldless-v1", emptyV1: true, added: []schema.Field{smf(1, "added1", schema.Simple("int32")), smf(2, "added2", schema.Simple("string"))}},
		{name: "one-field-v1-many-added", added: []schema.Field{smf(4, "a4", schema.Simple("bool")), smf(5, "a5", schema.Simple("float64")), smf(6, "a6", schema.Simple("LeafM")),
			smf(7, "a7", schema.ArrayOf(schema.Simple("Leaf"))), smf(8, "a8", schema.MapOf("int32", schema.ArrayOf(schema.Simple("string")))), smf(9, "a9", schema.Simple("int16"))}},
	}
}

// evoSchema builds one version of the pair; v2=true includes the additions.
func evoSchema(v evoVariant, v2 bool) *schema.Schema {
	leaf := &schema.Def{Kind: "struct", Name: "Leaf", Fields: []schema.Field{sf("la", schema.Simple("int16")), sf("lb", schema.Simple("string"))}}
	leafM := &schema.Def{Kind: "message", Name: "LeafM", Fields: []schema.Field{smf(1, "lm", schema.Simple("uint32"))}}
	evoFields := func() []schema.Field {
		fs := []schema.Field{smf(1, "a", schema.Simple("int32")), smf(2, "old", schema.Simple("string")), smf(3, "c", schema.Simple("int64"))}
		if v.emptyV1 {
			fs = nil
		}
		if v.undep && !v2 {
			fs[1].Deprecated = true
			fs[1].DepMsg = "v1 no longer wants this"
		}
		if v2 {
			fs = append(fs, v.added...)
		}
		return fs
	}
	evo := &schema.Def{Kind: "message", Name: "Evo", Fields: evoFields()}
	tail := func(n string) schema.Field { return sf(n, schema.Simple("int32")) }
	defs := []*schema.Def{leaf, leafM, evo,
		{Kind: "struct", Name: "InStruct", Fields: []schema.Field{sf("lead", schema.Simple("byte")), sf("e", schema.Simple("Evo")), tail("tail")}},
		{Kind: "struct", Name: "InArray", Fields: []schema.Field{sf("es", schema.ArrayOf(schema.Simple("Evo"))), tail("tail")}},
		{Kind: "struct", Name: "InMap", Fields: []schema.Field{sf("m", schema.MapOf("string", schema.Simple("Evo"))), tail("tail")}},
		{Kind: "message", Name: "InMessage", Fields: []schema.Field{smf(1, "e", schema.Simple("Evo")), smf(2, "tail", schema.Simple("int32"))}},
		{Kind: "union", Name: "UBranch", Branches: []schema.Branch{
			{Index: 1, Def: &schema.Def{Kind: "message", Name: "EvoB", Fields: evoFields()}},
			{Index: 2, Def: &schema.Def{Kind: "struct", Name: "Other", Fields: []schema.Field{sf("o", schema.Simple("bool"))}}}}},
		{Kind: "struct", Name: "InUnionBranch", Fields: []schema.Field{sf("u", schema.Simple("UBranch")), tail("tail")}},
		{Kind: "union", Name: "UCarrier", Branches: []schema.Branch{
			{Index: 1, Def: &schema.Def{Kind: "struct", Name: "Carrier", Fields: []schema.Field{sf("e", schema.Simple("Evo")), tail("ctail")}}}}},
		{Kind: "struct", Name: "InUnionStructBranch", Fields: []schema.Field{sf("u", schema.Simple("UCarrier")), tail("tail")}},
		{Kind: "struct", Name: "ViaStruct", Fields: []schema.Field{sf("s", schema.Simple("InStruct")), tail("tail2")}},
		{Kind: "struct", Name: "ViaStructArray", Fields: []schema.Field{sf("ss", schema.ArrayOf(schema.Simple("InStruct"))), tail("tail2")}},
		{Kind: "message", Name: "ViaMessage", Fields: []schema.Field{smf(1, "w", schema.Simple("InMessage")), smf(2, "tail2", schema.Simple("int32"))}},
		// the union-inline message referenced by name from other records (its own reader templates)
		{Kind: "struct", Name: "MemberInStruct", Fields: []schema.Field{sf("e", schema.Simple("EvoB")), tail("tail")}},
		{Kind: "struct", Name: "MemberInArray", Fields: []schema.Field{sf("es", schema.ArrayOf(schema.Simple("EvoB"))), tail("tail")}},
		{Kind: "message", Name: "MemberInMessage", Fields: []schema.Field{smf(1, "e", schema.Simple("EvoB")), smf(2, "tail", schema.Simple("int32"))}},
		{Kind: "struct", Name: "ViaMapOfArrays", Fields: []schema.Field{sf("mm", schema.MapOf("int32", schema.ArrayOf(schema.Simple("Evo")))), tail("tail2")}},
	}
	return &schema.Schema{Defs: defs}
}

var c04Contexts = map[string]string{
	"Evo": "top-level", "InStruct": "struct-field", "InArray": "array-element", "InMap": "map-value", "InMessage": "message-field",
	"UBranch": "union-branch-message(top)", "InUnionBranch": "union-branch-message", "UCarrier": "union-branch-struct(top)", "InUnionStructBranch": "union-branch-struct",
	"MemberInStruct": "inline-member-as-struct-field", "MemberInArray": "inline-member-as-array-element", "MemberInMessage": "inline-member-as-message-field",
	"ViaStruct": "via-struct", "ViaStructArray": "via-struct-array", "ViaMessage": "via-message", "ViaMapOfArrays": "map-of-arrays",
}

// restrict maps a value of the v2 definition onto the v1 definition (same shape except that
// messages of v1 know fewer indices).
func restrict(c1, c2 *codec.Ctx, t1, t2 schema.Type, v any) any {
	switch t1.Kind {
	case "array":
		if t1.Elem.IsSimple() && (t1.Elem.Name == "byte" || t1.Elem.Name == "uint8") {
			return v
		}
		l, ok := v.([]any)
		if !ok {
			return v
		}
		out := make([]any, len(l))
		for i := range l {
			out[i] = restrict(c1, c2, *t1.Elem, *t2.Elem, l[i])
		}
		return out
	case "map":
		l, ok := v.([]any)
		if !ok {
			return v
		}
		out := make([]any, len(l))
		for i := range l {
			kv := l[i].([]any)
			out[i] = []any{kv[0], restrict(c1, c2, *t1.Val, *t2.Val, kv[1])}
		}
		return out
	}
	if schema.IsPrimitive(t1.Name) {
		return v
	}
	d1, d2 := c1.S.Find(t1.Name), c2.S.Find(t2.Name)
	if d1 == nil || d2 == nil || d1.Kind == "enum" {
		return v
	}
	return restrictDef(c1, c2, d1, d2, v)
}

func restrictDef(c1, c2 *codec.Ctx, d1, d2 *schema.Def, v any) any {
	l, _ := v.([]any)
	switch d1.Kind {
	case "struct":
		out := make([]any, len(d1.Fields))
		for i := range d1.Fields {
			out[i] = restrict(c1, c2, d1.Fields[i].Type, d2.Fields[i].Type, l[i])
		}
		return out
	case "message":
		f1, f2 := d1.SortedFields(), d2.SortedFields()
		out := make([]any, len(f1))
		for i, a := range f1 {
			for j, b := range f2 {
				if b.Index == a.Index && j < len(l) && l[j] != nil && !b.Deprecated {
					m := l[j].(map[string]any)
					out[i] = map[string]any{"p": restrict(c1, c2, a.Type, b.Type, m["p"])}
				}
			}
		}
		return out
	case "union":
		b1, b2 := d1.SortedBranches(), d2.SortedBranches()
		out := make([]any, len(b1))
		for i := range b1 {
			if i < len(l) && l[i] != nil {
				m := l[i].(map[string]any)
				out[i] = map[string]any{"p": restrictDef(c1, c2, b1[i].Def, b2[i].Def, m["p"])}
			}
		}
		return out
	}
	return v
}

func runC04(args []string) {
	r := core.NewRun("C04", "exploration")
	r.Rule = "pairs of schema versions (v1, v2): v2 adds message fields with fresh higher indices (scalars, strings, arrays, nested struct/message, map, index 255) and/or still transmits a field v1 has marked deprecated; the evolved message sits in 16 contexts " +
		"(top level, struct field with a sentinel after it, array element, map value, message field, union branch as the message itself and inside a struct branch, and two levels deep via struct / struct array / message / map of arrays). " +
		"Both versions are generated and compiled; values of v2 (added fields present and absent) are encoded by v2's encoder and decoded by v1's UnmarshalBebop, DecodeBebop (also 1- and 3-byte chunked), Make<T> and Make<T>FromBytes. " +
		"Oracle: no error; value == v2 value restricted by the harness to v1's fields (deprecated-in-v1 fields included), every sibling after the evolved message intact; stream position == length of the v2 encoding. " +
		"distinct_nontrivial = distinct (variant, context, value index) triples."
	r.Assume = []string{"all three encoders agree (C02), so v2's MarshalBebop output stands for what a newer peer sends"}
	febin, err := buildWorker("feworker")
	if err != nil {
		fatalSetup(r, err)
	}
	vars := evoVariants()
	var pkgs []*GenPkg
	type pair struct {
		v      evoVariant
		p1, p2 *GenPkg
	}
	var pairs []pair
	for i, v := range vars {
		p1 := &GenPkg{Name: fmt.Sprintf("e%02da", i), Label: "v1/" + v.name, S: evoSchema(v, false)}
		p2 := &GenPkg{Name: fmt.Sprintf("e%02db", i), Label: "v2/" + v.name, S: evoSchema(v, true)}
		pkgs = append(pkgs, p1, p2)
		pairs = append(pairs, pair{v, p1, p2})
	}
	generateAll(febin, pkgs)
	mod, err := newMod("c04")
	if err != nil {
		fatalSetup(r, err)
	}
	if err := mod.compile(pkgs); err != nil {
		fatalSetup(r, err)
	}
	for _, p := range pkgs {
		if !p.OK() {
			fatalSetup(r, fmt.Errorf("version package %s does not build: %s%s%s", p.Label, p.ReadErr, p.GenErr, core.Short(p.BuildErr, 400)))
		}
	}
	bin, err := mod.buildDriver(pkgs, "driver")
	if err != nil {
		fatalSetup(r, err)
	}
	nvals := 16
	if r.Thorough() {
		nvals = 120
	}
	core.Pool(len(pairs), func(int) *core.Child {
		return &core.Child{Name: "driver", Argv: []string{bin}, Env: []string{"VERIF_AS_LIMIT_MB=6144"}}
	}, len(pairs), func(i int) any { return map[string]any{"op": "ping"} }, func(pi int, ch *core.Child, _ core.Result) {
		pr := pairs[pi]
		c1, c2 := &codec.Ctx{S: pr.p1.S, KeepDeprecated: true}, &codec.Ctx{S: pr.p2.S}
		for name, ctxName := range c04Contexts {
			d1, d2 := pr.p1.S.Find(name), pr.p2.S.Find(name)
			vg := codec.NewVG(c2, r.Seed)
			for vi, v := range vg.Records(d2, nvals) {
				var er encRes
				res := ch.Do(map[string]any{"op": "enc", "pkg": pr.p2.Name, "type": name, "val": v})
				if !postOf(res, &er) || er.FillErr != "" || er.HarnessE != "" || er.MarshalO != "ok" {
					r.Inconclusive("v2 encoder did not produce bytes")
					continue
				}
				want := restrictDef(c1, c2, d1, d2, v)
				hows := []struct {
					how    string
					chunks []int
					kind   string
				}{{"unmarshal", nil, ""}, {"frombytes", nil, ""}, {"decode", nil, ""}, {"make", nil, ""}, {"decode", []int{1}, ""}, {"decode", []int{3}, ""},
					{"decode", nil, "bytes.Reader"}, {"decode", nil, "bufio"}, {"decode", nil, "bytes.Buffer"}, {"decode", nil, "file"}}
				// a trailer after the record makes over-consumption visible with every reader kind
				trailer := "a1b2c3d4e5f60718293a4b5c6d7e8f90"
				var cases []decCase
				for _, h := range hows {
					dc := decCase{Type: name, Hex: er.Marshal, How: h.how}
					if h.how == "decode" || h.how == "make" {
						dc.Hex = er.Marshal + trailer
					}
					if h.chunks != nil || h.kind != "" {
						dc.Reader = map[string]any{"chunks": h.chunks, "kind": h.kind}
					}
					cases = append(cases, dc)
				}
				outs := runCases(ch, pr.p1.Name, cases)
				for hi, o := range outs {
					h := hows[hi]
					path := "byte"
					if h.how == "decode" || h.how == "make" {
						path = "stream"
					}
					r.Eval(fmt.Sprintf("%s|%s|%d", pr.v.name, name, vi))
					loc := map[string]string{"variant": pr.v.name, "context": ctxName, "decoder": h.how, "path": path, "reader": h.kind}
					detail := map[string]any{"variant": pr.v.name, "record": name, "v2_value": v, "v2_bytes": er.Marshal, "expected_under_v1": want, "decoder": h.how, "chunks": h.chunks,
						"v1_schema": pr.p1.Text, "v2_schema": pr.p2.Text}
					if o.Outcome != "ok" {
						loc["how"] = outcomeClass(o.Outcome)
						detail["outcome"] = o.Outcome
						r.Violate("older reader crashes on a newer encoding", loc, detail)
						continue
					}
					if o.HasErr {
						detail["error"] = o.Err
						r.Violate("older reader rejects a newer encoding", loc, detail)
						continue
					}
					if d := c1.EqualDef(d1, want, o.Val, name); d != "" {
						detail["diff(expected vs decoded)"] = d
						detail["decoded"] = o.Val
						at := diffField(d)
						switch {
						case strings.Contains(at, "tail"):
							loc["at"] = "sibling-after"
						case strings.Contains(at, "old"):
							loc["at"] = "deprecated-field"
						default:
							loc["at"] = "evolved-message-or-other"
						}
						r.Violate("older reader decodes a different value", loc, detail)
						continue
					}
					if path == "stream" {
						b, _ := hex.DecodeString(er.Marshal)
						if o.Pos != len(b) {
							detail["consumed"] = o.Pos
							detail["length"] = len(b)
							r.Violate("older reader consumes a different number of bytes from the stream", loc, detail)
							continue
						}
					}
					if r.NeedSample() && vi == 0 && hi == 2 && len(er.Marshal) < 200 {
						r.Sample(map[string]any{"variant": pr.v.name, "context": ctxName, "v2_bytes": er.Marshal, "decoded_by_v1": o.Val, "equals_restriction": true})
					}
				}
			}
		}
	})
	r.Set("version_pairs", len(pairs))
	r.Set("contexts", len(c04Contexts))
	finish(r)
}
