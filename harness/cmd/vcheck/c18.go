package main

import (
	"bytes"
	"encoding/hex"
	"fmt"
	"go/ast"
	"go/parser"
	"go/printer"
	"go/token"
	"math/rand"
	"os"
	"path/filepath"
	"sort"
	"strings"
	"sync"
	"time"

	"verif/harness/codec"
	"verif/harness/core"
	"verif/harness/schema"
)

func init() { checks["C18"] = runC18 }

type igraph struct {
	n   int
	adj [][]bool
}

func graphFromBits(n int, bits uint64, loops bool) igraph {
	g := igraph{n: n, adj: make([][]bool, n)}
	k := 0
	for i := 0; i < n; i++ {
		g.adj[i] = make([]bool, n)
		for j := 0; j < n; j++ {
			if i == j && !loops {
				continue
			}
			if bits&(1<<uint(k)) != 0 {
				g.adj[i][j] = true
			}
			k++
		}
	}
	return g
}

func (g igraph) String() string {
	var es []string
	for i := 0; i < g.n; i++ {
		for j := 0; j < g.n; j++ {
			if g.adj[i][j] {
				es = append(es, fmt.Sprintf("%d>%d", i, j))
			}
		}
	}
	return fmt.Sprintf("n%d[%s]", g.n, strings.Join(es, " "))
}

// reach returns the nodes reachable from 0 (including 0).
func (g igraph) reach() []bool {
	seen := make([]bool, g.n)
	var dfs func(i int)
	dfs = func(i int) {
		if seen[i] {
			return
		}
		seen[i] = true
		for j := 0; j < g.n; j++ {
			if g.adj[i][j] {
				dfs(j)
			}
		}
	}
	dfs(0)
	return seen
}

// cyclicFromRoot: does the part of the graph reachable from node 0 contain a cycle?
func (g igraph) cyclicFromRoot() bool {
	re := g.reach()
	color := make([]int, g.n)
	var dfs func(i int) bool
	dfs = func(i int) bool {
		color[i] = 1
		for j := 0; j < g.n; j++ {
			if !g.adj[i][j] || !re[j] {
				continue
			}
			if color[j] == 1 {
				return true
			}
			if color[j] == 0 && dfs(j) {
				return true
			}
		}
		color[i] = 2
		return false
	}
	for i := 0; i < g.n; i++ {
		if re[i] && color[i] == 0 && dfs(i) {
			return true
		}
	}
	return false
}

// fileDefs are the definitions of node i's file.
func (g igraph) fileDefs(i int) []*schema.Def {
	fs := []schema.Field{sf("v", schema.Simple("int32"))}
	for j := 0; j < g.n; j++ {
		if g.adj[i][j] && j != i {
			fs = append(fs, sf(fmt.Sprintf("e%d", j), schema.Simple(fmt.Sprintf("Tn%d", j))))
		}
	}
	return []*schema.Def{
		{Kind: "struct", Name: fmt.Sprintf("Tn%d", i), Fields: fs},
		{Kind: "message", Name: fmt.Sprintf("Mn%d", i), Fields: []schema.Field{smf(1, "a", schema.Simple("string")), smf(2, "self", schema.Simple(fmt.Sprintf("Tn%d", i)))}},
		{Kind: "enum", Name: fmt.Sprintf("Kn%d", i), Options: []schema.Option{{Name: "OptA", Lit: fmt.Sprint(i + 1)}}},
	}
}

func (g igraph) fileText(i int, pkgs bool) string {
	s := &schema.Schema{}
	for j := 0; j < g.n; j++ {
		if g.adj[i][j] {
			s.Defs = append(s.Defs, &schema.Def{Kind: "import", Path: fmt.Sprintf("./f%d.bop", j)})
		}
	}
	if pkgs {
		s.Defs = append(s.Defs, &schema.Def{Kind: "const", Name: "go_package", CType: "string", Lit: fmt.Sprintf("%q", fmt.Sprintf("example.com/gen/pk%d", i))})
	}
	s.Defs = append(s.Defs, g.fileDefs(i)...)
	return schema.Print(s, schema.Layouts[0])
}

// inlined: the single schema obtained by inlining every reachable file once.
func (g igraph) inlined() *schema.Schema {
	re := g.reach()
	s := &schema.Schema{}
	for i := 0; i < g.n; i++ {
		if re[i] {
			s.Defs = append(s.Defs, g.fileDefs(i)...)
		}
	}
	return s
}

// declSet parses Go source and returns name -> printed declaration.
func declSet(src string) (map[string]string, error) {
	fset := token.NewFileSet()
	f, err := parser.ParseFile(fset, "gen.go", src, parser.ParseComments)
	if err != nil {
		return nil, err
	}
	out := map[string]string{}
	pr := func(n any) string {
		var b bytes.Buffer
		printer.Fprint(&b, fset, n)
		return b.String()
	}
	for _, d := range f.Decls {
		switch x := d.(type) {
		case *ast.FuncDecl:
			name := x.Name.Name
			if x.Recv != nil && len(x.Recv.List) > 0 {
				name = "(" + pr(x.Recv.List[0].Type) + ")." + name
			}
			x.Doc = nil
			out["func "+name] = pr(x)
		case *ast.GenDecl:
			if x.Tok == token.IMPORT {
				continue
			}
			for _, sp := range x.Specs {
				switch y := sp.(type) {
				case *ast.TypeSpec:
					y.Doc, y.Comment = nil, nil
					out["type "+y.Name.Name] = pr(y)
				case *ast.ValueSpec:
					y.Doc, y.Comment = nil, nil
					for _, n := range y.Names {
						if n.Name == "_" {
							out[x.Tok.String()+" "+pr(y)] = pr(y)
							continue
						}
						out[x.Tok.String()+" "+n.Name] = pr(y)
					}
				}
			}
		}
	}
	return out, nil
}

type c18Case struct {
	g        igraph
	mode     string // separate | combined
	pkgs     bool
	dir      string
	res      genRes
	dead     string
	inlRes   genRes
	inlDead  string
	extraRel string
}

func runC18(args []string) {
	r := core.NewRun("C18", "exploration")
	r.Rule = "import graphs are realised as file trees (node i = file f<i>.bop defining a struct that embeds the struct of every file it imports, a message and an enum; edges = import statements). " +
		"Exhaustively: all 512 digraphs with self-loops on 3 files in separate mode (distinct go_package per file), combined mode (no go_package) and separate mode without go_package; all 4096 loop-free digraphs on 4 files in separate mode " +
		"(thorough: all 65536 on 4 files with loops in both modes, seeded random graphs up to 12 files). The real Generate runs on the root file in a child process. Oracles: (T) returns a result or an error within the CPU budget, no panic; " +
		"(S) separate mode: an 'import cycle' error iff the harness's own DFS finds a cycle in the part reachable from the root, and no other error; (C) combined mode, acyclic: the top-level Go declarations equal, declaration by declaration, " +
		"those generated from the harness's inlining of the reachable files (each once), and a sample of the combined packages passes the C01/C03 codec oracles against the reference codec for the inlined schema; " +
		"(R) dedicated trees with sub-directories, decoy files and several spellings of one path check that a path is resolved relative to the importing file and each file is inlined once. " +
		"distinct_nontrivial = distinct (graph, mode) pairs with at least one import."
	r.Assume = []string{"the import-cycle error is recognised by the words 'import cycle' in the error text", "files in one tree carry pairwise distinct go_package values in the (S) workload"}
	bin, err := buildWorker("feworker")
	if err != nil {
		fatalSetup(r, err)
	}
	root := filepath.Join(work(), "c18")
	var cases []*c18Case
	for bits := uint64(0); bits < 512; bits++ {
		g := graphFromBits(3, bits, true)
		cases = append(cases, &c18Case{g: g, mode: "separate", pkgs: true}, &c18Case{g: g, mode: "combined", pkgs: false}, &c18Case{g: g, mode: "separate", pkgs: false})
	}
	for bits := uint64(0); bits < 4096; bits++ {
		g := graphFromBits(4, bits, false)
		cases = append(cases, &c18Case{g: g, mode: "separate", pkgs: true})
		if r.Thorough() || bits%8 == 0 {
			cases = append(cases, &c18Case{g: g, mode: "combined", pkgs: false})
		}
	}
	if r.Thorough() {
		for bits := uint64(0); bits < 65536; bits++ {
			g := graphFromBits(4, bits, true)
			cases = append(cases, &c18Case{g: g, mode: "separate", pkgs: true}, &c18Case{g: g, mode: "combined", pkgs: false})
		}
	}
	rng := rand.New(rand.NewSource(r.Seed))
	nrand := 60
	if r.Thorough() {
		nrand = 1500
	}
	for i := 0; i < nrand; i++ {
		n := 5 + rng.Intn(8)
		g := igraph{n: n, adj: make([][]bool, n)}
		dag := rng.Intn(2) == 0
		for a := 0; a < n; a++ {
			g.adj[a] = make([]bool, n)
			for b := 0; b < n; b++ {
				if a == b || (dag && b < a) {
					continue
				}
				if rng.Intn(n) < 2 {
					g.adj[a][b] = true
				}
			}
		}
		cases = append(cases, &c18Case{g: g, mode: "separate", pkgs: true}, &c18Case{g: g, mode: "combined", pkgs: false})
	}
	// run
	var idMu sync.Mutex
	nextID := 0
	core.Pool(nproc(), func(int) *core.Child {
		ch := feChild(bin)
		ch.CPUBudget = 20 * time.Second
		return ch
	}, len(cases), func(i int) any {
		c := cases[i]
		idMu.Lock()
		nextID++
		c.dir = filepath.Join(root, fmt.Sprintf("g%06d", nextID))
		idMu.Unlock()
		os.MkdirAll(c.dir, 0o755)
		re := c.g.reach()
		for k := 0; k < c.g.n; k++ {
			if re[k] {
				os.WriteFile(filepath.Join(c.dir, fmt.Sprintf("f%d.bop", k)), []byte(c.g.fileText(k, c.pkgs)), 0o644)
			}
		}
		st := Opts{}.settings("pkg")
		st["combined"] = c.mode == "combined"
		return map[string]any{"op": "gen", "path": filepath.Join(c.dir, "f0.bop"), "settings": st}
	}, func(i int, ch *core.Child, res core.Result) {
		c := cases[i]
		if res.Outcome != "post" {
			c.dead = res.Outcome + ": " + core.FatalCause(res.Stderr)
		} else {
			var p struct {
				R genRes `json:"r"`
			}
			jsonUnmarshal(res.Post, &p)
			c.res = p.R
		}
		// inlined reference generation for acyclic combined cases
		if c.mode == "combined" && !c.g.cyclicFromRoot() {
			st := Opts{}.settings("pkg")
			text := schema.Print(c.g.inlined(), schema.Layouts[0])
			ir := ch.Do(map[string]any{"op": "gen", "text": hex.EncodeToString([]byte(text)), "settings": st})
			if ir.Outcome != "post" {
				c.inlDead = ir.Outcome
			} else {
				var p struct {
					R genRes `json:"r"`
				}
				jsonUnmarshal(ir.Post, &p)
				c.inlRes = p.R
			}
		}
		os.RemoveAll(c.dir)
	})
	var codecPkgs []*GenPkg
	for _, c := range cases {
		edges := 0
		for i := range c.g.adj {
			for j := range c.g.adj[i] {
				if c.g.adj[i][j] {
					edges++
				}
			}
		}
		key := ""
		if edges > 0 {
			key = c.g.String() + "|" + c.mode + fmt.Sprint(c.pkgs)
		}
		r.Eval(key)
		cyc := c.g.cyclicFromRoot()
		loc := map[string]string{"mode": c.mode, "go_package": fmt.Sprint(c.pkgs), "n": fmt.Sprint(c.g.n), "cyclic": fmt.Sprint(cyc)}
		detail := map[string]any{"graph": c.g.String(), "mode": c.mode, "files_have_go_package": c.pkgs, "cyclic_from_root": cyc}
		if c.dead != "" {
			if strings.HasPrefix(c.dead, "wall") {
				r.Inconclusive("wall watchdog")
				continue
			}
			detail["cause"] = c.dead
			r.Violate("import resolution does not terminate / crashes", loc, detail)
			continue
		}
		if c.res.Outcome != "ok" {
			detail["outcome"] = c.res.Outcome
			detail["site"] = c.res.Site
			r.Violate("import resolution panics", loc, detail)
			continue
		}
		errText := c.res.ReadErr + c.res.Err
		isErr := c.res.ReadErr != "" || c.res.HasErr
		isCycleErr := isErr && strings.Contains(errText, "import cycle")
		detail["error"] = core.Short(errText, 300)
		if c.mode == "separate" && c.pkgs {
			switch {
			case cyc && !isCycleErr:
				r.Violate("separate mode: cyclic package graph not reported as an import cycle", loc, detail)
			case !cyc && isCycleErr:
				r.Violate("separate mode: import cycle reported for an acyclic package graph", loc, detail)
			case !cyc && isErr:
				loc["error"] = errClass(errText)
				r.Violate("separate mode: acyclic import graph rejected", loc, detail)
			}
			continue
		}
		if c.mode == "combined" && !cyc {
			if isErr {
				loc["error"] = errClass(errText)
				r.Violate("combined mode: acyclic import graph rejected", loc, detail)
				continue
			}
			if c.inlDead != "" || c.inlRes.Outcome != "ok" || c.inlRes.HasErr || c.inlRes.ReadErr != "" {
				r.Inconclusive("inlined reference schema did not generate")
				continue
			}
			a, e1 := declSet(c.res.Out)
			b, e2 := declSet(c.inlRes.Out)
			if e1 != nil || e2 != nil {
				detail["parse_errors"] = fmt.Sprint(e1, e2)
				r.Violate("combined mode: output is not parsable Go", loc, detail)
				continue
			}
			var diffs []string
			for k, v := range b {
				if av, ok := a[k]; !ok {
					diffs = append(diffs, "missing "+k)
				} else if av != v {
					diffs = append(diffs, "differs "+k)
				}
			}
			for k := range a {
				if _, ok := b[k]; !ok {
					diffs = append(diffs, "extra "+k)
				}
			}
			if len(diffs) > 0 {
				sort.Strings(diffs)
				detail["declaration_diffs"] = diffs
				loc["diff"] = strings.SplitN(diffs[0], " ", 2)[0]
				r.Violate("combined mode: declarations differ from inlining the imported files", loc, detail)
				continue
			}
			if len(codecPkgs) < 12 && c.g.n >= 3 && edges >= 2 {
				codecPkgs = append(codecPkgs, &GenPkg{Name: fmt.Sprintf("m%03d", len(codecPkgs)), Label: "combined/" + c.g.String(), S: c.g.inlined(), Src: c.res.Out, GenOut: "ok", Opts: Opts{}})
			}
			if r.NeedSample() && edges >= 3 {
				r.Sample(map[string]any{"graph": c.g.String(), "mode": c.mode, "declarations": len(a), "equal_to_inlined_generation": true})
			}
		}
	}
	c18Resolution(r, bin, root)
	c18Codec(r, codecPkgs)
	r.Set("graphs_x_modes", len(cases))
	finish(r)
}

// c18Codec compiles some combined-mode outputs (package name fixed up) and runs the
// round-trip and reference-bytes oracles for the inlined schema.
func c18Codec(r *core.Run, pkgs []*GenPkg) {
	if len(pkgs) == 0 {
		return
	}
	for _, p := range pkgs {
		p.Src = strings.Replace(p.Src, "package pkg", "package "+p.Name, 1)
		p.Text = schema.Print(p.S, schema.Layouts[0])
	}
	mod, err := newMod("c18codec")
	if err != nil {
		r.Inconclusive("cannot create module for combined packages")
		return
	}
	if err := mod.compile(pkgs); err != nil {
		r.Inconclusive("go build: " + core.Short(err.Error(), 100))
		return
	}
	for _, p := range pkgs {
		if p.BuildErr != "" {
			r.Eval("")
			r.Violate("combined mode: output does not compile", map[string]string{"mode": "combined"}, map[string]any{"graph": p.Label, "compiler": core.Short(p.BuildErr, 800)})
		}
	}
	bin, err := mod.buildDriver(pkgs, "driver")
	if err != nil {
		r.Inconclusive("driver for combined packages: " + core.Short(err.Error(), 200))
		return
	}
	ch := &core.Child{Name: "driver", Argv: []string{bin}, CPUBudget: 5 * time.Second}
	defer ch.Close()
	for _, p := range pkgs {
		if !p.OK() {
			continue
		}
		ctx := &codec.Ctx{S: p.S}
		for _, d := range p.S.Defs {
			if d.Kind != "struct" && d.Kind != "message" {
				continue
			}
			vg := codec.NewVG(ctx, r.Seed)
			for vi, v := range vg.Records(d, 6) {
				ref, _, rerr := ctx.EncodeRecord(d.Name, v)
				if rerr != nil {
					continue
				}
				var er encRes
				if !postOf(ch.Do(map[string]any{"op": "enc", "pkg": p.Name, "type": d.Name, "val": v}), &er) || er.FillErr != "" || er.HarnessE != "" {
					r.Inconclusive("combined package value not built")
					continue
				}
				r.Eval(fmt.Sprintf("codec|%s|%s|%d", p.Label, d.Name, vi))
				loc := map[string]string{"mode": "combined", "oracle": "wire"}
				if er.Marshal != hex.EncodeToString(ref) || er.Encode != hex.EncodeToString(ref) {
					r.Violate("combined mode: wire bytes differ from the inlined schema's reference encoding", loc, map[string]any{"graph": p.Label, "type": d.Name, "value": v, "marshal": er.Marshal, "reference": hex.EncodeToString(ref)})
					continue
				}
				outs := runCases(ch, p.Name, []decCase{{Type: d.Name, Hex: hex.EncodeToString(ref), How: "unmarshal"}, {Type: d.Name, Hex: hex.EncodeToString(ref), How: "decode"}})
				for _, o := range outs {
					if o.Outcome != "ok" || o.HasErr || ctx.EqualDef(d, v, o.Val, d.Name) != "" {
						r.Violate("combined mode: decoding the inlined schema's reference encoding fails", loc, map[string]any{"graph": p.Label, "type": d.Name, "value": v, "result": o})
					}
				}
			}
		}
	}
}

// c18Resolution: sub-directories, decoys and several spellings of one path.
func c18Resolution(r *core.Run, bin, root string) {
	dir := filepath.Join(root, "resolution")
	write := func(rel, text string) {
		p := filepath.Join(dir, rel)
		os.MkdirAll(filepath.Dir(p), 0o755)
		os.WriteFile(p, []byte(text), 0o644)
	}
	st := func(name, field string) string { return "struct " + name + " {\n    int32 " + field + ";\n}\n" }
	// tree 1: sub/b.bop imports its sibling c.bop; a decoy c.bop sits next to the root
	write("t1/root.bop", "import \"sub/b.bop\"\nstruct Root {\n    Bsub b;\n}\n")
	write("t1/sub/b.bop", "import \"c.bop\"\nstruct Bsub {\n    Csib c;\n}\n")
	write("t1/sub/c.bop", st("Csib", "right"))
	write("t1/c.bop", st("Cdecoy", "wrong"))
	// tree 2: sub/b.bop imports ../d.bop (the root directory's d.bop); decoy in the parent of root
	write("t2/top/root.bop", "import \"sub/b.bop\"\nstruct Root {\n    Bsub b;\n}\n")
	write("t2/top/sub/b.bop", "import \"../d.bop\"\nstruct Bsub {\n    Dup d;\n}\n")
	write("t2/top/d.bop", st("Dup", "right"))
	write("t2/d.bop", st("Ddecoy", "wrong"))
	// tree 3: one file under three spellings and through a diamond: inlined once
	write("t3/root.bop", "import \"./b.bop\"\nimport \"b.bop\"\nimport \"x/../b.bop\"\nimport \"x/y.bop\"\nstruct Root {\n    Bonce b;\n    Yy y;\n}\n")
	write("t3/b.bop", st("Bonce", "v"))
	write("t3/x/y.bop", "import \"../b.bop\"\nstruct Yy {\n    Bonce b;\n}\n")
	// tree 4: deeper chain, every hop relative to its own file
	write("t4/root.bop", "import \"a/one.bop\"\nstruct Root {\n    One o;\n}\n")
	write("t4/a/one.bop", "import \"b/two.bop\"\nstruct One {\n    Two t;\n}\n")
	write("t4/a/b/two.bop", "import \"../../three.bop\"\nstruct Two {\n    Three t;\n}\n")
	write("t4/three.bop", st("Three", "v"))
	trees := []struct {
		name, rootFile string
		want, forbid   []string
	}{
		{"sibling-in-subdir", "t1/root.bop", []string{"type Csib", "type Bsub", "type Root"}, []string{"type Cdecoy"}},
		{"parent-dir-from-subdir", "t2/top/root.bop", []string{"type Dup", "type Bsub"}, []string{"type Ddecoy"}},
		{"same-file-three-spellings-and-diamond", "t3/root.bop", []string{"type Bonce", "type Yy", "type Root"}, nil},
		{"chain-through-three-directories", "t4/root.bop", []string{"type One", "type Two", "type Three"}, nil},
	}
	ch := feChild(bin)
	defer ch.Close()
	for _, tr := range trees {
		for _, chdir := range []string{"", dir} {
			var gr genRes
			s := Opts{}.settings("pkg")
			item := map[string]any{"op": "gen", "path": filepath.Join(dir, tr.rootFile), "settings": s}
			cwd := "absolute-path"
			if chdir != "" {
				item["path"] = tr.rootFile
				item["chdir"] = chdir
				cwd = "relative-to-cwd"
			}
			outcome, stderr := feOne(ch, item, &gr)
			r.Eval("resolution|" + tr.name + "|" + cwd)
			loc := map[string]string{"mode": "combined", "tree": tr.name, "root_path": cwd}
			detail := map[string]any{"tree": tr.name, "root": tr.rootFile, "error": gr.ReadErr + gr.Err}
			if outcome != "post" || gr.Outcome != "ok" {
				detail["cause"] = outcome + gr.Outcome + core.FatalCause(stderr)
				r.Violate("import resolution panics", loc, detail)
				continue
			}
			if gr.HasErr || gr.ReadErr != "" {
				r.Violate("import path not resolved relative to the importing file", loc, detail)
				continue
			}
			decls, perr := declSet(gr.Out)
			if perr != nil {
				detail["parse"] = perr.Error()
				r.Violate("combined mode: output is not parsable Go", loc, detail)
				continue
			}
			bad := false
			for _, w := range tr.want {
				if _, ok := decls[w]; !ok {
					detail["missing"] = w
					bad = true
				}
			}
			for _, w := range tr.forbid {
				if _, ok := decls[w]; ok {
					detail["unexpected"] = w
					bad = true
				}
			}
			if strings.Count(gr.Out, "type Bonce struct") > 1 {
				detail["duplicated"] = "type Bonce"
				bad = true
			}
			if bad {
				r.Violate("import path not resolved relative to the importing file", loc, detail)
			}
		}
	}
	os.RemoveAll(dir)
}
