// ioworker links /repo's iohelp package and executes primitive read/write operations on
// behalf of the C20 decider. It contains no expectations: it reports what iohelp did.
package main

import (
	"bytes"
	"encoding/binary"
	"encoding/hex"
	"encoding/json"
	"errors"
	"fmt"
	"io"
	"math"
	"runtime"
	"time"

	"github.com/200sc/bebop/iohelp"
	"verif/harness/core"
)

type item struct {
	Op   string   `json:"op"`
	Type string   `json:"type"`
	Lo   uint64   `json:"lo"`
	Hi   uint64   `json:"hi"`
	Pats []uint64 `json:"pats"`
	Hex  []string `json:"hex"` // guid patterns / string buffers
	K    int      `json:"k"`
	A    string   `json:"a"` // poison pattern hex (8 bytes) for fail op
	Err  string   `json:"err"`
	// str op
	Variant string `json:"variant"`
}

var width = map[string]int{"bool": 1, "byte": 1, "uint8": 1, "uint16": 2, "int16": 2, "uint32": 4, "int32": 4,
	"uint64": 8, "int64": 8, "float32": 4, "float64": 8, "date": 8, "guid": 16}

// exact returns a heap buffer of exactly n bytes (own allocation, so that a sanitizer red
// zone follows it).
func exact(b []byte) []byte {
	x := make([]byte, len(b))
	copy(x, b)
	return x
}

func writeBytes(typ string, buf []byte, p uint64) {
	switch typ {
	case "bool":
		iohelp.WriteBoolBytes(buf, p == 1)
	case "byte":
		iohelp.WriteByteBytes(buf, byte(p))
	case "uint8":
		iohelp.WriteUint8Bytes(buf, uint8(p))
	case "uint16":
		iohelp.WriteUint16Bytes(buf, uint16(p))
	case "int16":
		iohelp.WriteInt16Bytes(buf, int16(uint16(p)))
	case "uint32":
		iohelp.WriteUint32Bytes(buf, uint32(p))
	case "int32":
		iohelp.WriteInt32Bytes(buf, int32(uint32(p)))
	case "uint64":
		iohelp.WriteUint64Bytes(buf, p)
	case "int64", "date":
		iohelp.WriteInt64Bytes(buf, int64(p))
	case "float32":
		iohelp.WriteFloat32Bytes(buf, math.Float32frombits(uint32(p)))
	case "float64":
		iohelp.WriteFloat64Bytes(buf, math.Float64frombits(p))
	default:
		panic("writeBytes: " + typ)
	}
}

func writeStream(typ string, w *iohelp.ErrorWriter, p uint64) {
	switch typ {
	case "bool":
		iohelp.WriteBool(w, p == 1)
	case "byte":
		iohelp.WriteByte(w, byte(p))
	case "uint8":
		iohelp.WriteUint8(w, uint8(p))
	case "uint16":
		iohelp.WriteUint16(w, uint16(p))
	case "int16":
		iohelp.WriteInt16(w, int16(uint16(p)))
	case "uint32":
		iohelp.WriteUint32(w, uint32(p))
	case "int32":
		iohelp.WriteInt32(w, int32(uint32(p)))
	case "uint64":
		iohelp.WriteUint64(w, p)
	case "int64", "date":
		iohelp.WriteInt64(w, int64(p))
	case "float32":
		iohelp.WriteFloat32(w, math.Float32frombits(uint32(p)))
	case "float64":
		iohelp.WriteFloat64(w, math.Float64frombits(p))
	default:
		panic("writeStream: " + typ)
	}
}

type dateOut struct {
	Zero bool   `json:"zero"`
	Nano int64  `json:"nano"`
	Off  int    `json:"off"`
	Loc  string `json:"loc"`
}

func dateOf(t time.Time) dateOut {
	_, off := t.Zone()
	return dateOut{Zero: t.IsZero(), Nano: t.UnixNano(), Off: off, Loc: t.Location().String()}
}

// readBytes returns the value read as a bit pattern (dates: ticks are not recoverable from
// time.Time without assuming the convention, so the time itself is reported separately).
func readBytes(typ string, buf []byte) (uint64, *dateOut) {
	switch typ {
	case "bool":
		if iohelp.ReadBoolBytes(buf) {
			return 1, nil
		}
		return 0, nil
	case "byte":
		return uint64(iohelp.ReadByteBytes(buf)), nil
	case "uint8":
		return uint64(iohelp.ReadUint8Bytes(buf)), nil
	case "uint16":
		return uint64(iohelp.ReadUint16Bytes(buf)), nil
	case "int16":
		return uint64(uint16(iohelp.ReadInt16Bytes(buf))), nil
	case "uint32":
		return uint64(iohelp.ReadUint32Bytes(buf)), nil
	case "int32":
		return uint64(uint32(iohelp.ReadInt32Bytes(buf))), nil
	case "uint64":
		return iohelp.ReadUint64Bytes(buf), nil
	case "int64":
		return uint64(iohelp.ReadInt64Bytes(buf)), nil
	case "float32":
		return uint64(math.Float32bits(iohelp.ReadFloat32Bytes(buf))), nil
	case "float64":
		return math.Float64bits(iohelp.ReadFloat64Bytes(buf)), nil
	case "date":
		d := dateOf(iohelp.ReadDateBytes(buf))
		return 0, &d
	}
	panic("readBytes: " + typ)
}

func readStream(typ string, r *iohelp.ErrorReader) (uint64, *dateOut) {
	switch typ {
	case "bool":
		if iohelp.ReadBool(r) {
			return 1, nil
		}
		return 0, nil
	case "byte":
		return uint64(iohelp.ReadByte(r)), nil
	case "uint8":
		return uint64(iohelp.ReadUint8(r)), nil
	case "uint16":
		return uint64(iohelp.ReadUint16(r)), nil
	case "int16":
		return uint64(uint16(iohelp.ReadInt16(r))), nil
	case "uint32":
		return uint64(iohelp.ReadUint32(r)), nil
	case "int32":
		return uint64(uint32(iohelp.ReadInt32(r))), nil
	case "uint64":
		return iohelp.ReadUint64(r), nil
	case "int64":
		return uint64(iohelp.ReadInt64(r)), nil
	case "float32":
		return uint64(math.Float32bits(iohelp.ReadFloat32(r))), nil
	case "float64":
		return math.Float64bits(iohelp.ReadFloat64(r)), nil
	case "date":
		d := dateOf(iohelp.ReadDate(r))
		return 0, &d
	}
	panic("readStream: " + typ)
}

// chunkReader delivers at most n bytes per Read (n = 0: everything available).
type chunkReader struct {
	r io.Reader
	n int
}

func (c *chunkReader) Read(p []byte) (int, error) {
	if c.n > 0 && len(p) > c.n {
		p = p[:c.n]
	}
	return c.r.Read(p)
}

var chunkCycle = []int{0, 1, 3, 7}

type countingWriter struct {
	buf    bytes.Buffer
	writes int
}

func (c *countingWriter) Write(p []byte) (int, error) { c.writes++; return c.buf.Write(p) }

// rt: for each pattern, write with both writers and read back with both readers.
func opRT(it item) any {
	w := width[it.Type]
	pats := it.Pats
	if it.Hi > it.Lo {
		for p := it.Lo; p < it.Hi; p++ {
			pats = append(pats, p)
		}
	}
	wb := make([]byte, 0, len(pats)*w)
	ws := make([]byte, 0, len(pats)*w)
	rb := make([]byte, 0, len(pats)*8)
	rs := make([]byte, 0, len(pats)*8)
	var dates []dateOut
	var dates2 []dateOut
	writes := 0
	var errs []string
	out, site := core.Guard(func() {
		for pi, p := range pats {
			buf := make([]byte, w)
			writeBytes(it.Type, buf, p)
			wb = append(wb, buf...)
			cw := &countingWriter{}
			ew := iohelp.NewErrorWriter(cw)
			writeStream(it.Type, ew, p)
			if ew.Err != nil {
				errs = append(errs, "writer err: "+ew.Err.Error())
			}
			writes += cw.writes
			sb := cw.buf.Bytes()
			ws = append(ws, sb...)
			v, d := readBytes(it.Type, exact(buf))
			rb = binary.LittleEndian.AppendUint64(rb, v)
			if d != nil {
				dates = append(dates, *d)
			}
			er := iohelp.NewErrorReader(&chunkReader{bytes.NewReader(exact(sb)), chunkCycle[pi%4]})
			v2, d2 := readStream(it.Type, er)
			if er.Err != nil {
				errs = append(errs, "reader err: "+er.Err.Error())
			}
			rs = binary.LittleEndian.AppendUint64(rs, v2)
			if d2 != nil {
				dates2 = append(dates2, *d2)
			}
		}
	})
	return map[string]any{"outcome": out, "site": site, "n": len(pats), "wb": hex.EncodeToString(wb), "ws": hex.EncodeToString(ws),
		"rb": hex.EncodeToString(rb), "rs": hex.EncodeToString(rs), "dates": dates, "dates2": dates2, "writes": writes, "errs": errs}
}

// guid: hex patterns of 16 bytes each (canonical order).
func opGUID(it item) any {
	type one struct {
		WB, WS, RB, RS string
		Err            string
	}
	var res []one
	out, site := core.Guard(func() {
		for gi, h := range it.Hex {
			raw, _ := hex.DecodeString(h)
			var g [16]byte
			copy(g[:], raw)
			buf := make([]byte, 16)
			iohelp.WriteGUIDBytes(buf, g)
			cw := &countingWriter{}
			ew := iohelp.NewErrorWriter(cw)
			iohelp.WriteGUID(ew, g)
			g1 := iohelp.ReadGUIDBytes(exact(buf))
			er := iohelp.NewErrorReader(&chunkReader{bytes.NewReader(exact(cw.buf.Bytes())), chunkCycle[gi%4]})
			g2 := iohelp.ReadGUID(er)
			o := one{WB: hex.EncodeToString(buf), WS: hex.EncodeToString(cw.buf.Bytes()), RB: hex.EncodeToString(g1[:]), RS: hex.EncodeToString(g2[:])}
			if er.Err != nil {
				o.Err = er.Err.Error()
			}
			res = append(res, o)
		}
	})
	return map[string]any{"outcome": out, "site": site, "res": res}
}

// short: call the slice reader/writer of a type on an exactly k-byte buffer.
func opShort(it item) any {
	buf := make([]byte, it.K)
	for i := range buf {
		buf[i] = 0xA5
	}
	var v uint64
	out, site := core.Guard(func() {
		switch it.Variant {
		case "read":
			if it.Type == "guid" {
				g := iohelp.ReadGUIDBytes(buf)
				v = uint64(g[0])
			} else {
				v, _ = readBytes(it.Type, buf)
			}
		case "write":
			if it.Type == "guid" {
				iohelp.WriteGUIDBytes(buf, [16]byte{1, 2, 3, 4, 5, 6, 7, 8, 9, 10, 11, 12, 13, 14, 15, 16})
			} else {
				writeBytes(it.Type, buf, 0x1122334455667788)
			}
		}
	})
	return map[string]any{"outcome": out, "site": site, "v": v, "after": hex.EncodeToString(buf)}
}

type failReader struct {
	data  []byte
	err   error
	pos   int
	calls int
}

func (f *failReader) Read(p []byte) (int, error) {
	f.calls++
	if f.calls > 4096 {
		panic(core.RunawaySentinel("reads after failure"))
	}
	if f.pos >= len(f.data) {
		return 0, f.err
	}
	n := copy(p, f.data[f.pos:])
	f.pos += n
	return n, nil
}

func mkErr(s string) error {
	switch s {
	case "eof":
		return io.EOF
	case "ueof":
		return io.ErrUnexpectedEOF
	default:
		return errors.New("verif: injected " + s)
	}
}

// fail: first a successful read of an 8-byte poison pattern through the SAME ErrorReader
// (ReadUint64), then the reader delivers K fresh bytes and fails.
func opFail(it item) any {
	poison, _ := hex.DecodeString(it.A)
	fresh, _ := hex.DecodeString(it.Hex[0])
	// successful earlier reads through the same ErrorReader, all derived from the poison
	// pattern: a uint64, a GUID, a short string, a date and a uint16. Whatever scratch state a
	// reader keeps, it differs between the two poison runs.
	var pre []byte
	pre = append(pre, poison...)                                         // ReadUint64
	pre = append(pre, append(append([]byte{}, poison...), poison...)...) // ReadGUID
	pre = append(pre, 8, 0, 0, 0)
	pre = append(pre, poison...)     // ReadString (8 bytes)
	pre = append(pre, poison...)     // ReadDate
	pre = append(pre, poison[:2]...) // ReadUint16
	fr := &failReader{data: append(pre, fresh[:it.K]...), err: mkErr(it.Err)}
	var val string
	var errS string
	var ms0, ms1 runtime.MemStats
	var first uint64
	out, site := core.Guard(func() {
		er := iohelp.NewErrorReader(fr)
		first = iohelp.ReadUint64(er)
		_ = iohelp.ReadGUID(er)
		_ = iohelp.ReadString(er)
		_ = iohelp.ReadDate(er)
		_ = iohelp.ReadUint16(er)
		if er.Err != nil {
			errS = "early:" + er.Err.Error()
			return
		}
		runtime.ReadMemStats(&ms0)
		switch it.Type {
		case "guid":
			g := iohelp.ReadGUID(er)
			val = hex.EncodeToString(g[:])
		case "string":
			s := iohelp.ReadString(er)
			if len(s) > 64 {
				val = fmt.Sprintf("len=%d:%x", len(s), s[:64])
			} else {
				val = fmt.Sprintf("len=%d:%x", len(s), s)
			}
		default:
			v, d := readStream(it.Type, er)
			if d != nil {
				b, _ := json.Marshal(d)
				val = string(b)
			} else {
				val = fmt.Sprintf("%x", v)
			}
		}
		runtime.ReadMemStats(&ms1)
		if er.Err != nil {
			errS = er.Err.Error()
		}
	})
	return map[string]any{"outcome": out, "site": site, "val": val, "err": errS, "first": first,
		"alloc": ms1.TotalAlloc - ms0.TotalAlloc, "calls": fr.calls}
}

// str: run a string reader variant on an exactly sized buffer.
func opStr(it item) any {
	raw, _ := hex.DecodeString(it.Hex[0])
	buf := exact(raw)
	var s string
	var errS string
	var ms0, ms1 runtime.MemStats
	runtime.ReadMemStats(&ms0)
	out, site := core.Guard(func() {
		var err error
		switch it.Variant {
		case "safe":
			s, err = iohelp.ReadStringBytes(buf)
		case "shared":
			s, err = iohelp.ReadStringBytesSharedMemory(buf)
			s = string(append([]byte(nil), s...)) // copy out before buf is reused
		case "must":
			s = iohelp.MustReadStringBytes(buf)
		case "mustshared":
			s = iohelp.MustReadStringBytesSharedMemory(buf)
			s = string(append([]byte(nil), s...))
		case "stream", "stream1", "stream3":
			var rd io.Reader = &failReader{data: buf, err: io.EOF}
			if it.Variant == "stream1" {
				rd = &chunkReader{rd, 1}
			} else if it.Variant == "stream3" {
				rd = &chunkReader{rd, 3}
			}
			er := iohelp.NewErrorReader(rd)
			s = iohelp.ReadString(er)
			err = er.Err
		}
		if err != nil {
			errS = err.Error()
		}
	})
	runtime.ReadMemStats(&ms1)
	short := s
	if len(short) > 96 {
		short = short[:96]
	}
	return map[string]any{"outcome": out, "site": site, "len": len(s), "s": hex.EncodeToString([]byte(short)), "err": errS,
		"alloc": ms1.TotalAlloc - ms0.TotalAlloc}
}

// seqReader delivers data in pieces of at most chunk bytes (0 = whatever is asked for, -1 =
// half of what is asked for) and counts what it has handed out; after the data it returns err.
type seqReader struct {
	data  []byte
	pos   int
	chunk int
	err   error
	after int
}

func (s *seqReader) Read(p []byte) (int, error) {
	if s.pos >= len(s.data) {
		s.after++
		if s.after > 4096 {
			panic(core.RunawaySentinel("reads after end"))
		}
		return 0, s.err
	}
	if len(p) == 0 {
		return 0, nil
	}
	n := len(p)
	if s.chunk > 0 && n > s.chunk {
		n = s.chunk
	}
	if s.chunk < 0 && n > 1 {
		n = n / 2
	}
	n = copy(p[:n], s.data[s.pos:])
	s.pos += n
	return n, nil
}

// strseq: a string/byte array of K bytes followed by a uint32 and a uint16 on one stream;
// reports what ReadString/ReadBytes returned, where the stream stood afterwards and what the
// next two reads returned. Lo > 0 cuts the stream after Lo bytes (then Err).
func opStrSeq(it item) any {
	n := it.K
	stream := make([]byte, 0, n+10)
	stream = append(stream, byte(n), byte(n>>8), byte(n>>16), byte(n>>24))
	for j := 0; j < n; j++ {
		stream = append(stream, byte(j*7+3))
	}
	stream = append(stream, 0xD4, 0xC3, 0xB2, 0xA1, 0xAA, 0x55)
	if it.Lo > 0 && int(it.Lo) < len(stream) {
		stream = stream[:it.Lo]
	}
	chunk := 0
	switch it.Variant {
	case "1":
		chunk = 1
	case "3":
		chunk = 3
	case "4096":
		chunk = 4096
	case "1000":
		chunk = 1000
	case "half":
		chunk = -1
	}
	sr := &seqReader{data: exact(stream), chunk: chunk, err: mkErr(it.Err)}
	var got []byte
	var posAfter int
	var next32 uint32
	var next16 uint16
	var errAfterString, errS string
	var ms0, ms1 runtime.MemStats
	runtime.ReadMemStats(&ms0)
	out, site := core.Guard(func() {
		er := iohelp.NewErrorReader(sr)
		if it.Type == "bytes" {
			got = iohelp.ReadBytes(er)
		} else {
			got = []byte(iohelp.ReadString(er))
		}
		posAfter = sr.pos
		if er.Err != nil {
			errAfterString = er.Err.Error()
		}
		next32 = iohelp.ReadUint32(er)
		next16 = iohelp.ReadUint16(er)
		if er.Err != nil {
			errS = er.Err.Error()
		}
	})
	runtime.ReadMemStats(&ms1)
	bodyOK := len(got) == n
	for j := 0; bodyOK && j < len(got); j++ {
		if got[j] != byte(j*7+3) {
			bodyOK = false
		}
	}
	// after a failure: what the stream delivered, then at most zero bytes (never anything else)
	delivered := len(stream) - 4
	prefixOK := true
	for j := 0; j < len(got); j++ {
		if j < delivered && j < n {
			if got[j] != byte(j*7+3) {
				prefixOK = false
			}
		} else if got[j] != 0 {
			prefixOK = false
		}
	}
	return map[string]any{"outcome": out, "site": site, "len": len(got), "body_ok": bodyOK, "prefix_ok": prefixOK, "pos_after": posAfter, "stream_len": len(stream),
		"next32": next32, "next16": next16, "err_after_string": errAfterString, "err": errS, "alloc": ms1.TotalAlloc - ms0.TotalAlloc}
}

func main() {
	core.Serve(func(raw json.RawMessage, e *core.Emitter) any {
		var it item
		if err := json.Unmarshal(raw, &it); err != nil {
			return map[string]any{"harness_error": err.Error()}
		}
		switch it.Op {
		case "rt":
			return opRT(it)
		case "guid":
			return opGUID(it)
		case "short":
			return opShort(it)
		case "fail":
			return opFail(it)
		case "str":
			return opStr(it)
		case "strseq":
			return opStrSeq(it)
		case "ping":
			return map[string]any{"pong": true}
		}
		return map[string]any{"harness_error": "unknown op " + it.Op}
	})
}
