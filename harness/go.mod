module verif/harness

go 1.21

require github.com/200sc/bebop v0.0.0

replace github.com/200sc/bebop => /repo
