package schema

import (
	"encoding/json"
	"fmt"
	"math/big"
)

// Clone deep-copies a schema.
func (s *Schema) Clone() *Schema {
	b, _ := json.Marshal(s)
	var c Schema
	json.Unmarshal(b, &c)
	return &c
}

// Mutant is a schema with exactly one injected semantic error.
type Mutant struct {
	Class string // error class (statement of C13)
	Site  string // where it was injected
	S     *Schema
}

// recordDefs returns (def, site-kind) for every struct/message incl. union branches.
func recordDefs(s *Schema) []struct {
	D    *Def
	Site string
} {
	var out []struct {
		D    *Def
		Site string
	}
	for _, d := range s.Defs {
		switch d.Kind {
		case "struct", "message":
			out = append(out, struct {
				D    *Def
				Site string
			}{d, d.Kind})
		case "union":
			for i := range d.Branches {
				out = append(out, struct {
					D    *Def
					Site string
				}{d.Branches[i].Def, "union-branch-" + d.Branches[i].Def.Kind})
			}
		}
	}
	return out
}

func setLeaf(t *Type, name string) {
	switch t.Kind {
	case "array":
		setLeaf(t.Elem, name)
	case "map":
		setLeaf(t.Val, name)
	default:
		t.Name = name
	}
}

func shapeOf(t Type) string {
	switch t.Kind {
	case "array":
		return "array<" + shapeOf(*t.Elem) + ">"
	case "map":
		return "map<" + shapeOf(*t.Val) + ">"
	}
	return "T"
}

// Mutations enumerates single semantic-error injections applicable to s.
func Mutations(s *Schema) []Mutant {
	var out []Mutant
	add := func(class, site string, f func(c *Schema) bool) {
		c := s.Clone()
		if f(c) {
			out = append(out, Mutant{class, site, c})
		}
	}
	// --- undefined type at every field site
	for ri, rd := range recordDefs(s) {
		for fi, fd := range rd.D.Fields {
			ri, fi := ri, fi
			add("undefined type", rd.Site+"/"+shapeOf(fd.Type), func(c *Schema) bool {
				setLeaf(&recordDefs(c)[ri].D.Fields[fi].Type, "Undefined9")
				return true
			})
		}
		// --- duplicate field name
		if len(rd.D.Fields) >= 2 {
			ri := ri
			add("duplicate field name", rd.Site, func(c *Schema) bool {
				fs := recordDefs(c)[ri].D.Fields
				fs[len(fs)-1].Name = fs[0].Name
				return true
			})
		}
		// --- duplicate index / index zero
		if rd.D.Kind == "message" && len(rd.D.Fields) >= 1 {
			ri := ri
			if len(rd.D.Fields) >= 2 {
				add("duplicate index", rd.Site, func(c *Schema) bool {
					fs := recordDefs(c)[ri].D.Fields
					fs[len(fs)-1].Index = fs[0].Index
					return true
				})
			}
			add("message index zero", rd.Site, func(c *Schema) bool {
				recordDefs(c)[ri].D.Fields[0].Index = 0
				return true
			})
		}
		// --- named like a primitive
		for _, p := range []string{"string", "int32", "guid"} {
			ri, p := ri, p
			add("definition named like a primitive", rd.Site+"/"+p, func(c *Schema) bool {
				old := recordDefs(c)[ri].D.Name
				recordDefs(c)[ri].D.Name = p
				renameRefs(c, old, p)
				return true
			})
		}
	}
	// --- definitions: duplicate names, primitive names for enums/unions
	type nd struct {
		kind string
		name string
	}
	var defs []nd
	for _, d := range s.Defs {
		switch d.Kind {
		case "struct", "message", "enum", "union":
			defs = append(defs, nd{d.Kind, d.Name})
			if d.Kind == "union" {
				for _, b := range d.Branches {
					defs = append(defs, nd{"union-branch", b.Def.Name})
				}
			}
		}
	}
	for i := 0; i < len(defs); i++ {
		for j := 0; j < len(defs); j++ {
			if i == j {
				continue
			}
			a, b := defs[i], defs[j]
			add("duplicate definition name", a.kind+"+"+b.kind, func(c *Schema) bool {
				d := c.Find(b.name)
				if d == nil {
					return false
				}
				d.Name = a.name
				return true
			})
		}
	}
	for di, d := range s.Defs {
		di := di
		switch d.Kind {
		case "enum", "union":
			for _, p := range []string{"uint8", "date", "bool"} {
				p := p
				add("definition named like a primitive", d.Kind+"/"+p, func(c *Schema) bool {
					old := c.Defs[di].Name
					c.Defs[di].Name = p
					renameRefs(c, old, p)
					return true
				})
			}
		}
		if d.Kind == "enum" && len(d.Options) >= 1 {
			flagsTag := "plain"
			if d.Flags {
				flagsTag = "flags"
			}
			site := "enum:" + d.BaseOf() + "/" + flagsTag
			if len(d.Options) >= 2 {
				add("duplicate enum option name", site, func(c *Schema) bool {
					o := c.Defs[di].Options
					o[len(o)-1].Name = o[0].Name
					return true
				})
				add("duplicate enum value", site, func(c *Schema) bool {
					e := c.Defs[di]
					vals, ok := e.OptionValues()
					if !ok {
						return false
					}
					v := vals[0]
					lit := v.String()
					if v.Sign() >= 0 {
						lit = "0x" + v.Text(16) // other spelling of the same value
					}
					last := &e.Options[len(e.Options)-1]
					if e.Flags {
						last.Expr = &Expr{Lit: lit}
					} else {
						last.Lit = lit
					}
					return true
				})
			}
			lo, hi := rangeOf(d.BaseOf())
			for _, which := range []string{"below-min", "above-max"} {
				which := which
				add("enum value outside base type", site+"/"+which, func(c *Schema) bool {
					e := c.Defs[di]
					v := new(big.Int).Add(hi, big.NewInt(1))
					if which == "below-min" {
						v = new(big.Int).Sub(lo, big.NewInt(1))
					}
					last := &e.Options[len(e.Options)-1]
					if e.Flags {
						last.Expr = &Expr{Lit: v.String()}
					} else {
						last.Lit = v.String()
					}
					return true
				})
			}
		}
		if d.Kind == "union" && len(d.Branches) >= 1 {
			minIdx := d.Branches[0].Index
			for _, b := range d.Branches {
				if b.Index < minIdx {
					minIdx = b.Index
				}
			}
			if minIdx >= 1 {
				// the same injections located in a member whose discriminator is 0
				zero := func(c *Schema) *Def {
					c.Defs[di].Branches[0].Index = 0
					return c.Defs[di].Branches[0].Def
				}
				if len(d.Branches[0].Def.Fields) >= 2 {
					add("duplicate field name", "union-member-with-discriminator-0", func(c *Schema) bool {
						fs := zero(c).Fields
						fs[len(fs)-1].Name = fs[0].Name
						return true
					})
				}
				if d.Branches[0].Def.Kind == "message" && len(d.Branches[0].Def.Fields) >= 2 {
					add("duplicate index", "union-member-with-discriminator-0", func(c *Schema) bool {
						fs := zero(c).Fields
						fs[len(fs)-1].Index = fs[0].Index
						return true
					})
				}
				add("definition named like a primitive", "union-member-with-discriminator-0", func(c *Schema) bool {
					b := zero(c)
					old := b.Name
					b.Name = "int32"
					renameRefs(c, old, "int32")
					return true
				})
				add("duplicate definition name", "union-member-with-discriminator-0+union", func(c *Schema) bool {
					zero(c).Name = c.Defs[di].Name
					return true
				})
				if d.Branches[0].Def.Kind == "struct" {
					add("struct contains itself", "union-member-with-discriminator-0", func(c *Schema) bool {
						b := zero(c)
						b.Fields = append(b.Fields, Field{Name: "selfref9", Type: Simple(b.Name)})
						return true
					})
				}
			}
		}
		if d.Kind == "union" {
			if len(d.Branches) >= 2 {
				add("duplicate index", "union", func(c *Schema) bool {
					b := c.Defs[di].Branches
					b[len(b)-1].Index = b[0].Index
					return true
				})
				add("duplicate field name", "union-branches", func(c *Schema) bool {
					b := c.Defs[di].Branches
					b[len(b)-1].Def.Name = b[0].Def.Name
					return true
				})
			}
		}
		if d.Kind == "const" {
			for _, wrong := range wrongKindLits(d.CType) {
				wrong := wrong
				add("const literal of the wrong kind", d.CType+"<-"+wrong[0], func(c *Schema) bool {
					c.Defs[di].Lit = wrong[1]
					return true
				})
			}
			add("const literal of the wrong kind", "non-primitive const type", func(c *Schema) bool {
				c.Defs[di].CType = "Thing"
				return true
			})
		}
	}
	// --- duplicate opcode among record definitions
	var withOp, without []int
	for i, d := range s.Defs {
		if d.Kind == "struct" || d.Kind == "message" || d.Kind == "union" {
			if d.OpCode != nil {
				withOp = append(withOp, i)
			} else {
				without = append(without, i)
			}
		}
	}
	rec := append(append([]int{}, withOp...), without...)
	for a := 0; a < len(rec); a++ {
		for b := a + 1; b < len(rec); b++ {
			i, j := rec[a], rec[b]
			for _, spelling := range []string{"int+int", "str+int", "str+str"} {
				spelling := spelling
				add("duplicate opcode", s.Defs[i].Kind+"+"+s.Defs[j].Kind+"/"+spelling, func(c *Schema) bool {
					const code = "Dup1"
					v := uint32(code[0]) | uint32(code[1])<<8 | uint32(code[2])<<16 | uint32(code[3])<<24
					intForm := &OpCode{Int: v, IntLit: fmt.Sprintf("0x%x", v)}
					strForm := &OpCode{Str: code}
					switch spelling {
					case "int+int":
						c.Defs[i].OpCode, c.Defs[j].OpCode = intForm, &OpCode{Int: v, IntLit: fmt.Sprint(v)}
					case "str+int":
						c.Defs[i].OpCode, c.Defs[j].OpCode = strForm, intForm
					default:
						c.Defs[i].OpCode, c.Defs[j].OpCode = strForm, &OpCode{Str: code}
					}
					return true
				})
			}
		}
	}
	return out
}

func renameRefs(s *Schema, old, neu string) {
	var fix func(t *Type)
	fix = func(t *Type) {
		switch t.Kind {
		case "array":
			fix(t.Elem)
		case "map":
			fix(t.Val)
		default:
			if t.Name == old {
				t.Name = neu
			}
		}
	}
	for _, d := range s.All() {
		for i := range d.Fields {
			fix(&d.Fields[i].Type)
		}
	}
}

// wrongKindLits lists (kind, literal) pairs not assignable to a const of the given type.
func wrongKindLits(ctype string) [][2]string {
	str := [2]string{"string", `"text"`}
	flt := [2]string{"float", "1.5"}
	boo := [2]string{"bool", "true"}
	inf := [2]string{"inf", "inf"}
	num := [2]string{"int", "7"}
	switch ctype {
	case "bool":
		return [][2]string{str, num, flt, inf}
	case "string":
		return [][2]string{num, flt, boo, inf}
	case "guid":
		return [][2]string{num, boo, {"malformed-guid", `"e215a946-b26f-4567-a276"`}, {"malformed-guid-long", `"e215a946-b26f-4567-a276-13136f0a170800"`}}
	case "float32", "float64":
		return [][2]string{str, boo}
	default: // integers
		return [][2]string{str, flt, boo, inf, {"nan", "nan"}, {"-inf", "-inf"}}
	}
}

// RecursionFamily returns schemas for the recursion clauses: (name, schema, mustReject).
func RecursionFamily() []struct {
	Name   string
	S      *Schema
	Reject bool
} {
	type item = struct {
		Name   string
		S      *Schema
		Reject bool
	}
	var out []item
	st := func(name string, fs ...Field) *Def { return &Def{Kind: "struct", Name: name, Fields: fs} }
	out = append(out, item{"struct-direct", &Schema{Defs: []*Def{st("Node", f("next", Simple("Node")))}}, true})
	for n := 2; n <= 8; n++ {
		var defs []*Def
		for i := 0; i < n; i++ {
			defs = append(defs, st(fmt.Sprintf("Cyc%d", i), f("alpha", Simple("int32")), f("next", Simple(fmt.Sprintf("Cyc%d", (i+1)%n)))))
		}
		out = append(out, item{fmt.Sprintf("struct-cycle-%d", n), &Schema{Defs: defs}, true})
		// the same cycle with an outside struct that embeds it: declared first or last, with a
		// name that sorts before or after the cycle members, entering at the first or last member
		for _, on := range []string{"Aaa", "Outer", "Zzz"} {
			for _, entry := range []int{0, n - 1} {
				o := st(on, f("root", Simple(fmt.Sprintf("Cyc%d", entry))))
				out = append(out, item{fmt.Sprintf("struct-cycle-%d-with-%s-first-entry%d", n, on, entry), &Schema{Defs: append([]*Def{o}, defs...)}, true})
				out = append(out, item{fmt.Sprintf("struct-cycle-%d-with-%s-last-entry%d", n, on, entry), &Schema{Defs: append(append([]*Def{}, defs...), o)}, true})
			}
		}
		// two outside structs chained into the cycle
		out = append(out, item{fmt.Sprintf("struct-cycle-%d-with-chain-in", n), &Schema{Defs: append([]*Def{st("Aaa", f("x", Simple("Bbb"))), st("Bbb", f("y", Simple("Cyc1")))}, defs...)}, true})
		// reversed declaration order
		var rev []*Def
		for i := n - 1; i >= 0; i-- {
			rev = append(rev, defs[i])
		}
		out = append(out, item{fmt.Sprintf("struct-cycle-%d-reversed", n), &Schema{Defs: rev}, true})
	}
	out = append(out, item{"cycle-inside-union-branch", &Schema{Defs: []*Def{
		{Kind: "union", Name: "Uni1", Branches: []Branch{{Index: 1, Def: st("BrA", f("self", Simple("BrA")))}}}}}, true})
	// cycles among the inline struct members of a union, with 0, 1 or 3 top-level structs
	// next to them (the members are not top-level structs)
	for n := 2; n <= 5; n++ {
		var brs []Branch
		for i := 0; i < n; i++ {
			brs = append(brs, Branch{Index: i + 1, Def: st(fmt.Sprintf("Mem%d", i), f("alpha", Simple("int32")), f("next", Simple(fmt.Sprintf("Mem%d", (i+1)%n))))})
		}
		u := &Def{Kind: "union", Name: "Uni1", Branches: brs}
		out = append(out, item{fmt.Sprintf("member-cycle-%d-no-top-level-struct", n), &Schema{Defs: []*Def{u}}, true})
		out = append(out, item{fmt.Sprintf("member-cycle-%d-one-top-level-struct", n), &Schema{Defs: []*Def{st("Plain", f("x", Simple("int32"))), u}}, true})
		out = append(out, item{fmt.Sprintf("member-cycle-%d-three-top-level-structs", n), &Schema{Defs: []*Def{u, st("Pa", f("x", Simple("int32"))), st("Pb", f("a", Simple("Pa"))), st("Pc", f("b", Simple("Pb")))}}, true})
	}
	// containment through a DEPRECATED struct field is containment all the same (struct encoders do
	// not skip deprecated fields; only messages do)
	df := func(name string, t Type) Field { return Field{Name: name, Type: t, Deprecated: true, DepMsg: "use alpha"} }
	out = append(out, item{"struct-direct-through-deprecated-field", &Schema{Defs: []*Def{st("Node", f("alpha", Simple("int32")), df("next", Simple("Node")))}}, true})
	out = append(out, item{"struct-cycle-2-closed-by-deprecated-field", &Schema{Defs: []*Def{
		st("Cyc0", f("alpha", Simple("int32")), f("next", Simple("Cyc1"))), st("Cyc1", f("alpha", Simple("int32")), df("next", Simple("Cyc0")))}}, true})
	out = append(out, item{"struct-cycle-3-all-deprecated-fields", &Schema{Defs: []*Def{
		st("Cyc0", df("next", Simple("Cyc1"))), st("Cyc1", df("next", Simple("Cyc2"))), st("Cyc2", df("next", Simple("Cyc0")))}}, true})
	out = append(out, item{"cycle-inside-union-branch-through-deprecated-field", &Schema{Defs: []*Def{
		{Kind: "union", Name: "Uni1", Branches: []Branch{{Index: 1, Def: st("BrA", f("alpha", Simple("int32")), df("self", Simple("BrA")))}}}}}, true})
	out = append(out, item{"deprecated-struct-field-acyclic-accepted", &Schema{Defs: []*Def{
		st("Leaf", f("alpha", Simple("int32"))), st("Holder", f("alpha", Simple("int32")), df("old", Simple("Leaf")))}}, false})
	// a message field that is deprecated still terminates the recursion (positive)
	out = append(out, item{"through-deprecated-message-field-accepted", &Schema{Defs: []*Def{
		{Kind: "message", Name: "Node", Fields: []Field{mf(1, "alpha", Simple("int32")), {Name: "next", Type: Simple("Node"), Index: 2, Deprecated: true, DepMsg: "gone"}}}}}, false})
	// a cycle that alternates between a top-level struct and a union member
	out = append(out, item{"cycle-top-level-and-member", &Schema{Defs: []*Def{
		st("Top", f("m", Simple("Mem0"))),
		{Kind: "union", Name: "Uni1", Branches: []Branch{{Index: 1, Def: st("Mem0", f("t", Simple("Top")))}}}}}, true})
	// discriminator 0 is legal; whatever is wrong inside that member must still be found
	out = append(out, item{"union-discriminator-0-accepted", &Schema{Defs: []*Def{
		{Kind: "union", Name: "Uni1", Branches: []Branch{{Index: 0, Def: st("Zero", f("a", Simple("int32")))}, {Index: 1, Def: st("One", f("b", Simple("int32")))}}}}}, false})
	out = append(out, item{"cycle-inside-member-with-discriminator-0", &Schema{Defs: []*Def{
		{Kind: "union", Name: "Uni1", Branches: []Branch{{Index: 0, Def: st("BrA", f("self", Simple("BrA")))}, {Index: 1, Def: st("One", f("b", Simple("int32")))}}}}}, true})
	// positive cases
	out = append(out, item{"through-message", &Schema{Defs: []*Def{{Kind: "message", Name: "Node", Fields: []Field{mf(1, "next", Simple("Node"))}}}}, false})
	out = append(out, item{"struct-message-struct", &Schema{Defs: []*Def{
		st("Aaa", f("m", Simple("Mmm"))), {Kind: "message", Name: "Mmm", Fields: []Field{mf(1, "a", Simple("Aaa"))}}}}, false})
	out = append(out, item{"through-union", &Schema{Defs: []*Def{
		{Kind: "union", Name: "List", Branches: []Branch{
			{Index: 1, Def: st("Cons", f("head", Simple("int32")), f("tail", Simple("List")))},
			{Index: 2, Def: st("Nil")}}}}}, false})
	for _, n := range []int{8, 32, 64} {
		var defs []*Def
		for i := 0; i < n; i++ {
			fs := []Field{f("alpha", Simple("int32"))}
			if i+1 < n {
				fs = append(fs, f("next", Simple(fmt.Sprintf("Lnk%d", i+1))))
			}
			defs = append(defs, st(fmt.Sprintf("Lnk%d", i), fs...))
		}
		out = append(out, item{fmt.Sprintf("acyclic-chain-%d", n), &Schema{Defs: defs}, false})
		// dense DAG: each struct uses all later ones
		var dag []*Def
		for i := 0; i < n/2; i++ {
			var fs []Field
			for j := i + 1; j < n/2; j++ {
				fs = append(fs, f(fmt.Sprintf("f%d", j), Simple(fmt.Sprintf("Dag%d", j))))
			}
			dag = append(dag, st(fmt.Sprintf("Dag%d", i), fs...))
		}
		out = append(out, item{fmt.Sprintf("acyclic-dense-dag-%d", n/2), &Schema{Defs: dag}, false})
		// long cycle must still be found
		var cyc []*Def
		for i := 0; i < n; i++ {
			cyc = append(cyc, st(fmt.Sprintf("Big%d", i), f("next", Simple(fmt.Sprintf("Big%d", (i+1)%n)))))
		}
		out = append(out, item{fmt.Sprintf("struct-cycle-%d", n), &Schema{Defs: cyc}, true})
	}
	return out
}
