package schema

import (
	"fmt"
	"strings"
)

type Named struct {
	Name string
	S    *Schema
}

func f(name string, t Type) Field { return Field{Name: name, Type: t} }
func mf(i int, name string, t Type) Field {
	return Field{Name: name, Type: t, Index: i}
}

func defVariants() map[string]func(n string) *Def {
	return map[string]func(n string) *Def{
		"struct": func(n string) *Def {
			return &Def{Kind: "struct", Name: n, Fields: []Field{f("alpha", Simple("int32"))}}
		},
		"struct-empty": func(n string) *Def { return &Def{Kind: "struct", Name: n} },
		"struct-readonly": func(n string) *Def {
			return &Def{Kind: "struct", Name: n, ReadOnly: true, Fields: []Field{f("alpha", Simple("string"))}}
		},
		"struct-opcode": func(n string) *Def {
			return &Def{Kind: "struct", Name: n, OpCode: &OpCode{Int: 0x1234, IntLit: "0x1234"}, Fields: []Field{f("alpha", Simple("guid"))}}
		},
		"struct-docs": func(n string) *Def {
			return &Def{Kind: "struct", Name: n, Docs: []Doc{{Text: " documented " + n}}, Fields: []Field{f("alpha", Simple("bool"))}}
		},
		"struct-trailing": func(n string) *Def {
			return &Def{Kind: "struct", Name: n, Trailing: " after brace of " + n, Fields: []Field{f("alpha", Simple("bool"))}}
		},
		"message": func(n string) *Def {
			return &Def{Kind: "message", Name: n, Fields: []Field{mf(1, "alpha", Simple("int32")), mf(2, "beta", ArrayOf(Simple("string")))}}
		},
		"message-opcode": func(n string) *Def {
			return &Def{Kind: "message", Name: n, OpCode: &OpCode{Str: "Mo" + n[len(n)-2:]}, Fields: []Field{mf(1, "alpha", Simple("date"))}}
		},
		"message-deprecated": func(n string) *Def {
			return &Def{Kind: "message", Name: n, Fields: []Field{{Name: "alpha", Type: Simple("int32"), Index: 1, Deprecated: true, DepMsg: "old"}, mf(2, "beta", Simple("int64"))}}
		},
		"enum": func(n string) *Def {
			return &Def{Kind: "enum", Name: n, Options: []Option{{Name: "OptA", Lit: "1"}, {Name: "OptB", Lit: "2"}}}
		},
		"enum-uint8": func(n string) *Def {
			return &Def{Kind: "enum", Name: n, Base: "uint8", Options: []Option{{Name: "OptA", Lit: "200"}, {Name: "OptB", Lit: "255"}}}
		},
		"enum-int64": func(n string) *Def {
			return &Def{Kind: "enum", Name: n, Base: "int64", Options: []Option{{Name: "OptA", Lit: "-9223372036854775808"}, {Name: "OptB", Lit: "9223372036854775807"}}}
		},
		"enum-flags": func(n string) *Def {
			return &Def{Kind: "enum", Name: n, Flags: true, Options: []Option{{Name: "OptA", Expr: &Expr{Lit: "1"}},
				{Name: "OptB", Expr: &Expr{Op: "<<", L: &Expr{Lit: "1"}, R: &Expr{Lit: "3"}}},
				{Name: "OptC", Expr: &Expr{Op: "|", L: &Expr{Ident: "OptA"}, R: &Expr{Ident: "OptB"}}}}}
		},
		"enum-flags-int16": func(n string) *Def {
			return &Def{Kind: "enum", Name: n, Flags: true, Base: "int16", Options: []Option{{Name: "OptA", Expr: &Expr{Lit: "0x10"}},
				{Name: "OptB", Expr: &Expr{Op: "&", L: &Expr{Op: "()", L: &Expr{Op: "|", L: &Expr{Ident: "OptA"}, R: &Expr{Lit: "3"}}}, R: &Expr{Lit: "0x11"}}}}}
		},
		"union": func(n string) *Def {
			return &Def{Kind: "union", Name: n, Branches: []Branch{
				{Index: 1, Def: &Def{Kind: "struct", Name: n + "Bs", Fields: []Field{f("alpha", Simple("int32"))}}},
				{Index: 2, Def: &Def{Kind: "message", Name: n + "Bm", Fields: []Field{mf(1, "beta", Simple("string"))}}}}}
		},
		"union-opcode": func(n string) *Def {
			return &Def{Kind: "union", Name: n, OpCode: &OpCode{Int: 77, IntLit: "77"}, Branches: []Branch{
				{Index: 1, Def: &Def{Kind: "struct", Name: n + "Bs"}}}}
		},
		"const":        func(n string) *Def { return &Def{Kind: "const", Name: "c" + n, CType: "int32", Lit: "-5"} },
		"const-string": func(n string) *Def { return &Def{Kind: "const", Name: "c" + n, CType: "string", Lit: `"va\"lue"`} },
		"import":       func(n string) *Def { return &Def{Kind: "import", Path: "./" + n + ".bop"} },
	}
}

var variantOrder = []string{"struct", "struct-empty", "struct-readonly", "struct-opcode", "struct-docs", "struct-trailing", "message", "message-opcode",
	"message-deprecated", "enum", "enum-uint8", "enum-int64", "enum-flags", "enum-flags-int16", "union", "union-opcode", "const", "const-string", "import"}

// OrderFamily: every ordered pair of definition variants (state carried from one definition
// to the next is where parsers leak), plus selected triples.
func OrderFamily() []Named {
	v := defVariants()
	var out []Named
	for _, a := range variantOrder {
		for _, b := range variantOrder {
			if b == "import" && a != "import" {
				continue // imports lead the file
			}
			s := &Schema{Defs: []*Def{v[a]("Aa01"), v[b]("Bb02")}}
			out = append(out, Named{"pair/" + a + "+" + b, s})
		}
	}
	for _, a := range []string{"enum-flags", "struct-opcode", "struct-readonly", "message-opcode", "struct-trailing"} {
		for _, b := range []string{"const", "enum", "struct", "message"} {
			for _, c := range []string{"struct", "enum-uint8", "union", "message"} {
				s := &Schema{Defs: []*Def{v[a]("Aa01"), v[b]("Bb02"), v[c]("Cc03")}}
				out = append(out, Named{"triple/" + a + "+" + b + "+" + c, s})
			}
		}
	}
	return out
}

// ConstructFamily: one minimal schema per construct.
func ConstructFamily() []Named {
	var out []Named
	add := func(name string, defs ...*Def) { out = append(out, Named{"construct/" + name, &Schema{Defs: defs}}) }
	st := func(fs ...Field) *Def { return &Def{Kind: "struct", Name: "Rec1", Fields: fs} }
	ms := func(fs ...Field) *Def { return &Def{Kind: "message", Name: "Msg1", Fields: fs} }
	inner := &Def{Kind: "struct", Name: "Inner", Fields: []Field{f("alpha", Simple("int32"))}}
	innerM := &Def{Kind: "message", Name: "InnerM", Fields: []Field{mf(1, "alpha", Simple("int32"))}}
	en := &Def{Kind: "enum", Name: "Kind1", Base: "int16", Options: []Option{{Name: "OptA", Lit: "-1"}, {Name: "OptB", Lit: "0x7FFF"}}}
	for _, p := range Primitives {
		add("struct-field/"+p, st(f("alpha", Simple(p))))
		add("message-field/"+p, ms(mf(1, "alpha", Simple(p))))
		add("suffix-array/"+p, st(f("alpha", ArrayOf(Simple(p)))))
		add("long-array/"+p, st(f("alpha", LongArrayOf(Simple(p)))))
		add("map-key/"+p, st(f("alpha", MapOf(p, Simple("int32")))))
		add("map-value/"+p, ms(mf(1, "alpha", MapOf("string", Simple(p)))))
	}
	shapes := map[string]func(Type) Type{
		"T[][]":                    func(t Type) Type { return ArrayOf(ArrayOf(t)) },
		"T[][][]":                  func(t Type) Type { return ArrayOf(ArrayOf(ArrayOf(t))) },
		"array[array[T]]":          func(t Type) Type { return LongArrayOf(LongArrayOf(t)) },
		"array[T][]":               func(t Type) Type { return ArrayOf(LongArrayOf(t)) },
		"array[T[]]":               func(t Type) Type { return LongArrayOf(ArrayOf(t)) },
		"map[string,T[]]":          func(t Type) Type { return MapOf("string", ArrayOf(t)) },
		"map[string,T][]":          func(t Type) Type { return ArrayOf(MapOf("string", t)) },
		"array[map[guid,T]]":       func(t Type) Type { return LongArrayOf(MapOf("guid", t)) },
		"map[int32,map[string,T]]": func(t Type) Type { return MapOf("int32", MapOf("string", t)) },
		"map[string,array[T][]]":   func(t Type) Type { return MapOf("string", ArrayOf(LongArrayOf(t))) },
	}
	shapes["T[][][][]"] = func(t Type) Type { return ArrayOf(ArrayOf(ArrayOf(ArrayOf(t)))) }
	shapes["T[][][][][]"] = func(t Type) Type { return ArrayOf(ArrayOf(ArrayOf(ArrayOf(ArrayOf(t))))) }
	shapes["map[string,T[][][][]]"] = func(t Type) Type { return MapOf("string", ArrayOf(ArrayOf(ArrayOf(ArrayOf(t))))) }
	shapes["array[T][][][]"] = func(t Type) Type { return ArrayOf(ArrayOf(ArrayOf(LongArrayOf(t)))) }
	for _, name := range []string{"T[][][][]", "T[][][][][]", "map[string,T[][][][]]", "array[T][][][]", "T[][]", "T[][][]", "array[array[T]]", "array[T][]", "array[T[]]", "map[string,T[]]", "map[string,T][]",
		"array[map[guid,T]]", "map[int32,map[string,T]]", "map[string,array[T][]]"} {
		mk := shapes[name]
		add("shape-struct/"+name, st(f("alpha", mk(Simple("int32"))), f("omega", Simple("bool"))))
		add("shape-message/"+name, ms(mf(1, "alpha", mk(Simple("string"))), mf(2, "omega", Simple("bool"))))
		add("shape-ref/"+name, inner, en, st(f("alpha", mk(Simple("Inner"))), f("beta", mk(Simple("Kind1")))))
	}
	for _, b := range EnumBases {
		lo, hi := rangeOf(b)
		add("enum-base/"+b, &Def{Kind: "enum", Name: "Enm1", Base: b, Options: []Option{{Name: "OptA", Lit: lo.String()}, {Name: "OptB", Lit: hi.String()},
			{Name: "OptC", Lit: "0x11"}}})
		add("flags-base/"+b, &Def{Kind: "enum", Name: "Enm1", Base: b, Flags: true, Options: []Option{{Name: "OptA", Expr: &Expr{Lit: "1"}},
			{Name: "OptB", Expr: &Expr{Op: "<<", L: &Expr{Lit: "1"}, R: &Expr{Lit: "6"}}},
			{Name: "OptC", Expr: &Expr{Op: "|", L: &Expr{Ident: "OptA"}, R: &Expr{Op: "|", L: &Expr{Ident: "OptB"}, R: &Expr{Lit: "0x20"}}}},
			{Name: "OptD", Expr: &Expr{Op: ">>", L: &Expr{Op: "()", L: &Expr{Op: "&", L: &Expr{Ident: "OptC"}, R: &Expr{Lit: "0x60"}}}, R: &Expr{Lit: "2"}}}}})
	}
	for _, t := range []string{"bool", "byte", "uint8", "uint16", "int16", "uint32", "int32", "uint64", "int64", "float32", "float64", "string", "guid"} {
		lits := constLits[t]
		for i, l := range lits {
			add(fmt.Sprintf("const/%s/%d", t, i), &Def{Kind: "const", Name: "cst1", CType: t, Lit: l})
		}
	}
	// integer literal spellings: every final hex digit in both cases ('e' is also the exponent
	// letter of float literals), one-digit literals, negative hex
	{
		var lower, upper, single []Option
		for i, d := range "0123456789abcdef" {
			lower = append(lower, Option{Name: fmt.Sprintf("Low%d", i), Lit: "0x1" + string(d)})
			upper = append(upper, Option{Name: fmt.Sprintf("Upp%d", i), Lit: "0x2" + strings.ToUpper(string(d))})
			if i > 0 {
				single = append(single, Option{Name: fmt.Sprintf("One%d", i), Lit: "0x" + string(d)})
			}
		}
		add("hex-final-digit/enum-lower", &Def{Kind: "enum", Name: "Enm1", Base: "uint32", Options: lower})
		add("hex-final-digit/enum-upper", &Def{Kind: "enum", Name: "Enm1", Base: "uint16", Options: upper})
		add("hex-final-digit/enum-single", &Def{Kind: "enum", Name: "Enm1", Base: "byte", Options: single})
		for i, c := range [][2]string{{"uint32", "0x1e"}, {"byte", "0xe"}, {"uint16", "0xfe"}, {"int32", "-0x1e"}, {"uint64", "0xeeeeeeeeeeeeeeee"}, {"int64", "0x7ffffffffffffffe"}, {"uint32", "0xE"}, {"int16", "0x1E"}} {
			add(fmt.Sprintf("hex-final-digit/const-%d", i), &Def{Kind: "const", Name: "cst1", CType: c[0], Lit: c[1]})
		}
		add("hex-final-digit/opcode", &Def{Kind: "struct", Name: "Rec1", OpCode: &OpCode{Int: 0x1e, IntLit: "0x1e"}, Fields: []Field{f("alpha", Simple("int32"))}},
			&Def{Kind: "message", Name: "Msg1", OpCode: &OpCode{Int: 0xdeadbeee, IntLit: "0xdeadbeee"}})
		add("hex-final-digit/flags", &Def{Kind: "enum", Name: "Enm1", Base: "uint32", Flags: true, Options: []Option{{Name: "OptA", Expr: &Expr{Lit: "0x1e"}},
			{Name: "OptB", Expr: &Expr{Op: "|", L: &Expr{Lit: "0xe0"}, R: &Expr{Lit: "0xe"}}}, {Name: "OptC", Expr: &Expr{Op: "<<", L: &Expr{Lit: "0xe"}, R: &Expr{Lit: "0xe"}}}}})
	}
	add("go_package", &Def{Kind: "const", Name: "go_package", CType: "string", Lit: `"github.com/acme/things"`}, st(f("alpha", Simple("int32"))))
	add("opcode-int", &Def{Kind: "struct", Name: "Rec1", OpCode: &OpCode{Int: 4294967295, IntLit: "4294967295"}})
	add("opcode-hex", &Def{Kind: "message", Name: "Msg1", OpCode: &OpCode{Int: 0xABCDEF, IntLit: "0xABCDEF"}})
	add("opcode-str", &Def{Kind: "union", Name: "Uni1", OpCode: &OpCode{Str: "aZ09"}, Branches: []Branch{{Index: 1, Def: &Def{Kind: "struct", Name: "BrA"}}}})
	add("readonly", &Def{Kind: "struct", Name: "Rec1", ReadOnly: true, Fields: []Field{f("alpha", Simple("int32")), f("beta", ArrayOf(Simple("string")))}})
	add("deprecated-struct-field", st(Field{Name: "alpha", Type: Simple("int32"), Deprecated: true, DepMsg: "why"}, f("beta", Simple("int32"))))
	add("deprecated-message-field", ms(Field{Name: "alpha", Type: Simple("int32"), Index: 1, Deprecated: true, DepMsg: ""}, mf(2, "beta", Simple("int32"))))
	add("deprecated-enum-option", &Def{Kind: "enum", Name: "Enm1", Options: []Option{{Name: "OptA", Lit: "1", Deprecated: true, DepMsg: "x \"q\""}, {Name: "OptB", Lit: "2"}}})
	add("deprecated-union-branch", &Def{Kind: "union", Name: "Uni1", Branches: []Branch{{Index: 1, Deprecated: true, DepMsg: "b", Def: &Def{Kind: "struct", Name: "BrA"}},
		{Index: 2, Def: &Def{Kind: "message", Name: "BrB"}}}})
	add("tags", st(Field{Name: "alpha", Type: Simple("int32"), Tags: []Tag{{Key: "json", Value: "a,omitempty"}, {Key: "flag", Boolean: true}}}),
		ms(Field{Name: "beta", Type: Simple("int32"), Index: 1, Tags: []Tag{{Key: "db", Value: "b"}}}))
	add("docs-line", &Def{Kind: "struct", Name: "Rec1", Docs: []Doc{{Text: " one"}, {Text: " two"}}, Fields: []Field{{Name: "alpha", Type: Simple("int32"), Docs: []Doc{{Text: " field doc"}}}}})
	add("docs-block", &Def{Kind: "message", Name: "Msg1", Docs: []Doc{{Text: " block ", Block: true}}, Fields: []Field{{Name: "alpha", Index: 1, Type: Simple("int32"), Docs: []Doc{{Text: "*\n  * javadoc\n  ", Block: true}}}}})
	add("docs-enum-option", &Def{Kind: "enum", Name: "Enm1", Docs: []Doc{{Text: " e"}}, Options: []Option{{Name: "OptA", Lit: "1", Docs: []Doc{{Text: " o"}}}}})
	add("docs-union-branch", &Def{Kind: "union", Name: "Uni1", Docs: []Doc{{Text: " u"}}, Branches: []Branch{{Index: 1, Docs: []Doc{{Text: " b1"}}, Def: &Def{Kind: "struct", Name: "BrA", Fields: []Field{{Name: "alpha", Type: Simple("int32"), Docs: []Doc{{Text: " inner"}}}}}},
		{Index: 2, Docs: []Doc{{Text: " b2"}}, Tags: []Tag{{Key: "k", Value: "v"}}, Def: &Def{Kind: "message", Name: "BrB", Fields: []Field{mf(1, "beta", Simple("string"))}}}}})
	add("docs-const", &Def{Kind: "const", Name: "cst1", CType: "int32", Lit: "1", Docs: []Doc{{Text: " c doc"}}}, &Def{Kind: "const", Name: "cst2", CType: "int32", Lit: "2"})
	add("trailing-field-comment", st(Field{Name: "alpha", Type: Simple("int32"), Trailing: " not a doc"}, Field{Name: "beta", Type: Simple("int32"), Docs: []Doc{{Text: " beta doc"}}}))
	add("trailing-after-brace", &Def{Kind: "struct", Name: "Rec1", Trailing: " trailing", Fields: []Field{f("alpha", Simple("int32"))}}, &Def{Kind: "struct", Name: "Rec2", Fields: []Field{f("alpha", Simple("int32"))}})
	add("imports", &Def{Kind: "import", Path: "./a.bop"}, &Def{Kind: "import", Path: "b/c.bop"}, st(f("alpha", Simple("int32"))))
	add("union-nested-types", inner, innerM, en, &Def{Kind: "union", Name: "Uni1", Branches: []Branch{
		{Index: 1, Def: &Def{Kind: "struct", Name: "BrA", Fields: []Field{f("alpha", Simple("Inner")), f("beta", ArrayOf(Simple("Kind1")))}}},
		{Index: 3, Def: &Def{Kind: "message", Name: "BrB", Fields: []Field{mf(1, "alpha", Simple("InnerM")), mf(200, "beta", MapOf("string", Simple("Inner")))}}},
		{Index: 255, Def: &Def{Kind: "struct", Name: "BrC"}}}})
	add("message-max-index", ms(mf(1, "alpha", Simple("int32")), mf(255, "omega", Simple("int32"))))
	add("recursive-message", &Def{Kind: "message", Name: "Node", Fields: []Field{mf(1, "next", Simple("Node")), mf(2, "kids", ArrayOf(Simple("Node")))}})
	return out
}

// ExtremesFamily: records at the edges of what the format allows (wide fixed-size structs,
// many message fields and union members, deep nesting, large enums).
func ExtremesFamily() []Named {
	var out []Named
	s := &Schema{}
	var gs, is, bs []Field
	for i := 0; i < 17; i++ {
		gs = append(gs, f(fmt.Sprintf("g%02d", i), Simple("guid")))
	}
	for i := 0; i < 40; i++ {
		is = append(is, f(fmt.Sprintf("i%02d", i), Simple([]string{"int64", "float64", "date", "uint64"}[i%4])))
	}
	for i := 0; i < 300; i++ {
		bs = append(bs, f(fmt.Sprintf("b%03d", i), Simple([]string{"byte", "bool", "uint8"}[i%3])))
	}
	en := &Def{Kind: "enum", Name: "BigEnum", Base: "uint16"}
	for i := 0; i < 300; i++ {
		en.Options = append(en.Options, Option{Name: fmt.Sprintf("Opt%03d", i), Lit: fmt.Sprint(i * 7)})
	}
	wideEnum := &Def{Kind: "struct", Name: "WideEnums"}
	for i := 0; i < 140; i++ {
		wideEnum.Fields = append(wideEnum.Fields, f(fmt.Sprintf("e%03d", i), Simple("BigEnum")))
	}
	s.Defs = append(s.Defs, en,
		&Def{Kind: "struct", Name: "WideGuids", Fields: gs},
		&Def{Kind: "struct", Name: "WideInts", Fields: is},
		&Def{Kind: "struct", Name: "WideBytes", Fields: bs},
		wideEnum,
		&Def{Kind: "struct", Name: "HoldsWide", Fields: []Field{f("lead", Simple("byte")), f("w", Simple("WideGuids")), f("ws", ArrayOf(Simple("WideInts"))), f("tail", Simple("int32"))}})
	out = append(out, Named{"extremes/wide", s})

	s = &Schema{}
	mm := &Def{Kind: "message", Name: "ManyFields"}
	for i := 1; i <= 60; i++ {
		mm.Fields = append(mm.Fields, mf(i, fmt.Sprintf("m%02d", i), Simple([]string{"int32", "string", "bool", "guid", "float32"}[i%5])))
	}
	mm.Fields = append(mm.Fields, mf(255, "last", Simple("int64")))
	un := &Def{Kind: "union", Name: "ManyBranches"}
	for i := 1; i <= 30; i++ {
		idx := i
		if i > 25 {
			idx = 225 + i
		}
		b := Branch{Index: idx}
		if i%2 == 0 {
			b.Def = &Def{Kind: "struct", Name: fmt.Sprintf("Mb%02d", i), Fields: []Field{f("v", Simple("int32"))}}
		} else {
			b.Def = &Def{Kind: "message", Name: fmt.Sprintf("Mb%02d", i), Fields: []Field{mf(1, "v", Simple("string"))}}
		}
		un.Branches = append(un.Branches, b)
	}
	s.Defs = append(s.Defs, mm, un, &Def{Kind: "struct", Name: "HoldsMany", Fields: []Field{f("m", Simple("ManyFields")), f("u", ArrayOf(Simple("ManyBranches"))), f("tail", Simple("int32"))}})
	out = append(out, Named{"extremes/many", s})

	s = &Schema{}
	s.Defs = append(s.Defs, &Def{Kind: "struct", Name: "Ds0", Fields: []Field{f("v", Simple("int32"))}}, &Def{Kind: "message", Name: "Dm0", Fields: []Field{mf(1, "v", Simple("int32"))}})
	for i := 1; i <= 12; i++ {
		s.Defs = append(s.Defs, &Def{Kind: "struct", Name: fmt.Sprintf("Ds%d", i), Fields: []Field{f("inner", Simple(fmt.Sprintf("Ds%d", i-1))), f("after", Simple("uint16"))}})
		s.Defs = append(s.Defs, &Def{Kind: "message", Name: fmt.Sprintf("Dm%d", i), Fields: []Field{mf(1, "inner", Simple(fmt.Sprintf("Dm%d", i-1))), mf(2, "after", Simple("uint16"))}})
	}
	s.Defs = append(s.Defs, &Def{Kind: "struct", Name: "DeepMix", Fields: []Field{f("s", Simple("Ds12")), f("m", Simple("Dm12")), f("ms", ArrayOf(Simple("Dm12"))), f("ss", ArrayOf(Simple("Ds12"))), f("sm", MapOf("uint8", Simple("Ds11"))), f("tail", Simple("int32"))}})
	out = append(out, Named{"extremes/deep", s})

	// inline union members used as field types elsewhere, nested in each other by value
	s = &Schema{}
	s.Defs = append(s.Defs,
		&Def{Kind: "struct", Name: "Point", Fields: []Field{f("x", Simple("int32")), f("y", Simple("int32"))}},
		&Def{Kind: "union", Name: "Nest", Branches: []Branch{
			{Index: 1, Def: &Def{Kind: "struct", Name: "NestA", Fields: []Field{f("b", Simple("NestB")), f("tag", Simple("byte"))}}},
			{Index: 2, Def: &Def{Kind: "struct", Name: "NestB", Fields: []Field{f("c", Simple("NestC")), f("n", Simple("uint16"))}}},
			{Index: 3, Def: &Def{Kind: "struct", Name: "NestC", Fields: []Field{f("p", Simple("Point")), f("id", Simple("guid"))}}},
			{Index: 4, Def: &Def{Kind: "message", Name: "NestM", Fields: []Field{mf(1, "a", Simple("NestA")), mf(2, "more", ArrayOf(Simple("NestB")))}}}}},
		&Def{Kind: "message", Name: "Bag", Fields: []Field{mf(1, "as", MapOf("string", ArrayOf(Simple("NestA")))), mf(2, "m", Simple("NestM"))}},
		&Def{Kind: "struct", Name: "UsesMembers", Fields: []Field{f("a", Simple("NestA")), f("cs", ArrayOf(Simple("NestC"))), f("tail", Simple("int32"))}})
	out = append(out, Named{"extremes/member-types-used-elsewhere", s})

	// the same kind of nesting with NO top-level struct at all (bounds derived from the number of
	// top-level structs are zero here)
	s = &Schema{}
	s.Defs = append(s.Defs,
		&Def{Kind: "union", Name: "Shape0", Branches: []Branch{
			{Index: 1, Def: &Def{Kind: "struct", Name: "Outer0", Fields: []Field{f("in", Simple("Inner0")), f("deep", Simple("Deep0"))}}},
			{Index: 2, Def: &Def{Kind: "struct", Name: "Inner0", Fields: []Field{f("x", Simple("int32")), f("y", Simple("int64"))}}},
			{Index: 3, Def: &Def{Kind: "struct", Name: "Deep0", Fields: []Field{f("i", Simple("Inner0")), f("g", Simple("guid"))}}}}},
		&Def{Kind: "message", Name: "Holder0", Fields: []Field{mf(1, "outers", ArrayOf(Simple("Outer0"))), mf(2, "m", MapOf("string", ArrayOf(Simple("Deep0"))))}})
	out = append(out, Named{"extremes/no-top-level-structs", s})

	// inline MESSAGE members of a union used by name in other records (they have reader templates
	// of their own), one of them with a deprecated field that a peer may still send
	s = &Schema{}
	s.Defs = append(s.Defs,
		&Def{Kind: "struct", Name: "Pt", Fields: []Field{f("x", Simple("int32")), f("y", Simple("int32"))}},
		&Def{Kind: "union", Name: "Nest2", Branches: []Branch{
			{Index: 1, Def: &Def{Kind: "struct", Name: "NestS", Fields: []Field{f("p", Simple("Pt")), f("tag", Simple("byte"))}}},
			{Index: 4, Def: &Def{Kind: "message", Name: "NestM", Fields: []Field{mf(1, "a", Simple("NestS")), mf(2, "more", ArrayOf(Simple("NestS")))}}}}},
		&Def{Kind: "struct", Name: "UsesMsgMember", Fields: []Field{f("m", Simple("NestM")), f("tail", Simple("int32"))}},
		&Def{Kind: "struct", Name: "MsgMemberArr", Fields: []Field{f("ms", ArrayOf(Simple("NestM"))), f("tail", Simple("uint16"))}},
		&Def{Kind: "message", Name: "MsgMemberOpt", Fields: []Field{mf(1, "m", Simple("NestM")), mf(2, "tail", Simple("int32"))}},
		// an inline message member with a deprecated field (which a peer may still send), used by name
		&Def{Kind: "union", Name: "Shape", Branches: []Branch{
			{Index: 1, Def: &Def{Kind: "message", Name: "Label", Fields: []Field{mf(1, "text", Simple("string")),
				{Name: "old", Type: Simple("int32"), Index: 2, Deprecated: true, DepMsg: "gone"}, mf(3, "n", Simple("uint8"))}}},
			{Index: 2, Def: &Def{Kind: "struct", Name: "Dot", Fields: []Field{f("x", Simple("int32"))}}}}},
		&Def{Kind: "struct", Name: "Caption", Fields: []Field{f("label", Simple("Label")), f("layer", Simple("uint16"))}},
		&Def{Kind: "struct", Name: "Captions", Fields: []Field{f("labels", ArrayOf(Simple("Label"))), f("layer", Simple("uint16"))}})
	out = append(out, Named{"extremes/inline-message-members-by-name", s})

	// structs whose wire size is not a function of their decoded content alone: they hold a
	// message / union (skipped by the announced length), and are themselves held by value, in
	// arrays and in maps of records that read more after them
	s = &Schema{}
	s.Defs = append(s.Defs,
		&Def{Kind: "message", Name: "VarM", Fields: []Field{mf(1, "s", Simple("string")), mf(2, "n", Simple("int64"))}},
		&Def{Kind: "union", Name: "VarU", Branches: []Branch{
			{Index: 1, Def: &Def{Kind: "message", Name: "VarUm", Fields: []Field{mf(1, "s", Simple("string"))}}},
			{Index: 2, Def: &Def{Kind: "struct", Name: "VarUs", Fields: []Field{f("g", Simple("guid"))}}}}},
		&Def{Kind: "struct", Name: "HoldM", Fields: []Field{f("m", Simple("VarM")), f("x", Simple("int32"))}},
		&Def{Kind: "struct", Name: "HoldU", Fields: []Field{f("u", Simple("VarU")), f("x", Simple("int32"))}},
		&Def{Kind: "struct", Name: "OuterM", Fields: []Field{f("s", Simple("HoldM")), f("tail", Simple("int32"))}},
		&Def{Kind: "struct", Name: "OuterU", Fields: []Field{f("s", Simple("HoldU")), f("tail", Simple("int32"))}},
		&Def{Kind: "struct", Name: "OuterArr", Fields: []Field{f("ss", ArrayOf(Simple("HoldM"))), f("tail", Simple("int32"))}},
		&Def{Kind: "struct", Name: "OuterMap", Fields: []Field{f("ms", MapOf("uint8", Simple("HoldU"))), f("tail", Simple("int32"))}},
		&Def{Kind: "message", Name: "OuterMsg", Fields: []Field{mf(1, "s", Simple("HoldM")), mf(2, "tail", Simple("int32"))}})
	out = append(out, Named{"extremes/structs-holding-length-prefixed-records", s})

	// a struct that holds a message with a deprecated field and is itself nested in other records:
	// the trigger population of the known finding "struct skipped by its recomputed Size()" (C03/C04)
	s = &Schema{}
	s.Defs = append(s.Defs,
		&Def{Kind: "message", Name: "DepInner", Fields: []Field{{Name: "gone", Type: Simple("float64"), Index: 1, Deprecated: true, DepMsg: "gone"}, mf(2, "keep", Simple("int32"))}},
		&Def{Kind: "struct", Name: "DepWrap", Fields: []Field{f("m", Simple("DepInner")), f("w", Simple("int32"))}},
		&Def{Kind: "message", Name: "DepHoldM", Fields: []Field{mf(1, "w", Simple("DepWrap")), {Name: "old", Type: Simple("int16"), Index: 2, Deprecated: true, DepMsg: "old"}, mf(3, "tail", Simple("int32"))}},
		&Def{Kind: "struct", Name: "DepHoldS", Fields: []Field{f("w", Simple("DepWrap")), f("tail", Simple("int32"))}},
		&Def{Kind: "struct", Name: "DepHoldArr", Fields: []Field{f("ws", ArrayOf(Simple("DepWrap"))), f("tail", Simple("int32"))}})
	out = append(out, Named{"extremes/nested-struct-holding-deprecated", s})

	// containers nested three deep (the generators name their loop locals by depth)
	s = &Schema{}
	deepA := MapOf("string", MapOf("int32", ArrayOf(Simple("string"))))
	deepB := MapOf("uint8", MapOf("string", MapOf("guid", Simple("int32"))))
	deepC := ArrayOf(MapOf("string", ArrayOf(ArrayOf(Simple("int32")))))
	deepD := MapOf("int64", ArrayOf(MapOf("bool", ArrayOf(Simple("DeepLeaf")))))
	deepE := MapOf("float64", MapOf("uint8", Simple("int32"))) // NaN keys: m[k] cannot be read back
	deepF := MapOf("float32", ArrayOf(Simple("int32")))
	deepG := MapOf("float32", Simple("string"))   // the byte path advances by the length of the value it reads back
	deepH := MapOf("float64", Simple("DeepLeaf")) // ... or by its Size()
	s.Defs = append(s.Defs,
		&Def{Kind: "struct", Name: "DeepLeaf", Fields: []Field{f("a", Simple("int16")), f("s", Simple("string"))}},
		&Def{Kind: "struct", Name: "DeepCS", Fields: []Field{f("a", deepA), f("b", deepB), f("c", deepC), f("d", deepD), f("e", deepE), f("f", deepF), f("g", deepG), f("h", deepH), f("tail", Simple("int32"))}},
		&Def{Kind: "message", Name: "DeepCM", Fields: []Field{mf(1, "a", deepA), mf(2, "b", deepB), mf(3, "c", deepC), mf(4, "d", deepD), mf(6, "e", deepE), mf(7, "f", deepF), mf(8, "g", deepG), mf(9, "h", deepH), mf(5, "tail", Simple("int32"))}},
		&Def{Kind: "union", Name: "DeepCU", Branches: []Branch{
			{Index: 1, Def: &Def{Kind: "struct", Name: "DeepCUs", Fields: []Field{f("b", deepB), f("a", deepA)}}},
			{Index: 2, Def: &Def{Kind: "message", Name: "DeepCUm", Fields: []Field{mf(1, "d", deepD), mf(2, "c", deepC)}}}}})
	out = append(out, Named{"extremes/containers-three-deep", s})

	// containers that C06 fills with 20 000 elements
	s = &Schema{}
	s.Defs = append(s.Defs,
		&Def{Kind: "struct", Name: "BigElem", Fields: []Field{f("a", Simple("int32")), f("s", Simple("string"))}},
		&Def{Kind: "struct", Name: "BigMapS", Fields: []Field{f("m", MapOf("uint32", Simple("uint32"))), f("tail", Simple("int32"))}},
		&Def{Kind: "struct", Name: "BigArrS", Fields: []Field{f("es", ArrayOf(Simple("BigElem"))), f("tail", Simple("int32"))}},
		&Def{Kind: "struct", Name: "BigStrS", Fields: []Field{f("ss", ArrayOf(Simple("string"))), f("gs", ArrayOf(Simple("guid")))}},
		&Def{Kind: "message", Name: "BigM", Fields: []Field{mf(1, "m", MapOf("int64", Simple("int64"))), mf(2, "a", ArrayOf(Simple("int32"))), mf(3, "ms", MapOf("uint32", Simple("string")))}})
	out = append(out, Named{"extremes/big-containers", s})
	return out
}
