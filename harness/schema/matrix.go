package schema

import (
	"fmt"
	"strings"
)

// Cell is one (element type, shape, context) combination of the systematic matrix, as a
// minimal schema with the record under test named Rec.
type Cell struct {
	Elem, Shape, Ctx string
	S                *Schema
	Rec              string // record under test (for union contexts: the union)
	Support          []string
}

func (c Cell) Key() string { return c.Elem + "|" + c.Shape + "|" + c.Ctx }

var MatrixElems = []string{"bool", "byte", "uint8", "uint16", "int16", "uint32", "int32", "uint64", "int64", "float32", "float64", "string", "guid", "date",
	"enum:default", "enum:uint8", "enum:byte", "enum:uint16", "enum:int16", "enum:uint32", "enum:int32", "enum:uint64", "enum:int64", "enum:flags",
	"struct", "struct:empty", "struct:readonly", "message", "message:empty", "union"}

var MatrixShapes = []string{"T", "T[]", "T[][]", "T[][][]", "map[string,T]", "map[T,int32]", "map[string,T][]", "map[string,T[]]", "map[int32,map[string,T]]", "map[guid,T[][]]", "map[uint8,T][][]"}

var MatrixCtxs = []string{"struct", "struct-last", "readonly", "message", "message+deprecated", "union-struct", "union-message"}

// elemDefs returns the simple type name for an element kind and the definitions it needs,
// with names suffixed by sfx so that several cells can share one package.
func elemDefs(elem, sfx string) (string, []*Def) {
	switch {
	case IsPrimitive(elem):
		return elem, nil
	case strings.HasPrefix(elem, "enum:"):
		base := strings.TrimPrefix(elem, "enum:")
		name := "Kind" + strings.Title(base) + sfx
		d := &Def{Kind: "enum", Name: name}
		switch base {
		case "default":
			d.Options = []Option{{Name: "OptA", Lit: "1"}, {Name: "OptB", Lit: "2"}, {Name: "OptC", Lit: "4294967295"}}
		case "flags":
			d.Flags = true
			d.Base = "uint16"
			d.Options = []Option{{Name: "OptA", Expr: &Expr{Lit: "1"}}, {Name: "OptB", Expr: &Expr{Op: "<<", L: &Expr{Lit: "1"}, R: &Expr{Lit: "9"}}},
				{Name: "OptC", Expr: &Expr{Op: "|", L: &Expr{Ident: "OptA"}, R: &Expr{Ident: "OptB"}}}}
		default:
			d.Base = base
			lo, hi := rangeOf(base)
			d.Options = []Option{{Name: "OptA", Lit: lo.String()}, {Name: "OptB", Lit: hi.String()}, {Name: "OptC", Lit: "1"}}
		}
		return name, []*Def{d}
	case elem == "struct":
		n := "Inner" + sfx
		return n, []*Def{{Kind: "struct", Name: n, Fields: []Field{f("ia", Simple("int16")), f("ib", Simple("string"))}}}
	case elem == "struct:empty":
		n := "Hollow" + sfx
		return n, []*Def{{Kind: "struct", Name: n}}
	case elem == "struct:readonly":
		n := "Frozen" + sfx
		return n, []*Def{{Kind: "struct", Name: n, ReadOnly: true, Fields: []Field{f("ra", Simple("uint64")), f("rb", ArrayOf(Simple("byte")))}}}
	case elem == "message":
		n := "InnerM" + sfx
		return n, []*Def{{Kind: "message", Name: n, Fields: []Field{mf(1, "ma", Simple("int32")), mf(3, "mb", Simple("string"))}}}
	case elem == "message:empty":
		n := "HollowM" + sfx
		return n, []*Def{{Kind: "message", Name: n}}
	case elem == "union":
		n := "InnerU" + sfx
		return n, []*Def{{Kind: "union", Name: n, Branches: []Branch{
			{Index: 1, Def: &Def{Kind: "struct", Name: n + "Ba", Fields: []Field{f("ua", Simple("uint32"))}}},
			{Index: 2, Def: &Def{Kind: "message", Name: n + "Bb", Fields: []Field{mf(1, "ub", Simple("string"))}}},
			{Index: 4, Def: &Def{Kind: "struct", Name: n + "Bc"}}}}}
	}
	panic("elemDefs: " + elem)
}

func applyShape(shape string, t Type) (Type, bool) {
	switch shape {
	case "T":
		return t, true
	case "T[]":
		return ArrayOf(t), true
	case "T[][]":
		return ArrayOf(ArrayOf(t)), true
	case "T[][][]":
		return ArrayOf(ArrayOf(ArrayOf(t))), true
	case "map[string,T]":
		return MapOf("string", t), true
	case "map[T,int32]":
		if !t.IsPrim() {
			return t, false
		}
		return MapOf(t.Name, Simple("int32")), true
	case "map[string,T][]":
		return ArrayOf(MapOf("string", t)), true
	case "map[string,T[]]":
		return MapOf("string", ArrayOf(t)), true
	case "map[int32,map[string,T]]":
		return MapOf("int32", MapOf("string", t)), true
	case "map[guid,T[][]]":
		return MapOf("guid", ArrayOf(ArrayOf(t))), true
	case "map[uint8,T][][]":
		return ArrayOf(ArrayOf(MapOf("uint8", t))), true
	}
	panic("shape " + shape)
}

// cellRecord builds the record under test for a context. name is the record's name.
func cellRecord(ctx, name string, t Type) *Def {
	switch ctx {
	case "struct":
		return &Def{Kind: "struct", Name: name, Fields: []Field{f("lead", Simple("byte")), f("x", t), f("tail", Simple("int32"))}}
	case "struct-last":
		// the field under test is the last thing on the wire
		return &Def{Kind: "struct", Name: name, Fields: []Field{f("lead", Simple("byte")), f("x", t)}}
	case "readonly":
		return &Def{Kind: "struct", Name: name, ReadOnly: true, Fields: []Field{f("lead", Simple("byte")), f("x", t), f("tail", Simple("int32"))}}
	case "message":
		return &Def{Kind: "message", Name: name, Fields: []Field{mf(1, "x", t), mf(2, "tail", Simple("int32"))}}
	case "message+deprecated":
		return &Def{Kind: "message", Name: name, Fields: []Field{{Name: "old", Type: t, Index: 1, Deprecated: true, DepMsg: "gone"}, mf(2, "x", t), mf(7, "tail", Simple("int32"))}}
	case "union-struct":
		return &Def{Kind: "union", Name: name, Branches: []Branch{
			{Index: 1, Def: &Def{Kind: "struct", Name: name + "Ba", Fields: []Field{f("lead", Simple("byte")), f("x", t), f("tail", Simple("int32"))}}},
			{Index: 2, Def: &Def{Kind: "struct", Name: name + "Bb"}}}}
	case "union-message":
		return &Def{Kind: "union", Name: name, Branches: []Branch{
			{Index: 1, Def: &Def{Kind: "message", Name: name + "Ba", Fields: []Field{mf(1, "x", t), mf(2, "tail", Simple("int32"))}}},
			{Index: 3, Def: &Def{Kind: "struct", Name: name + "Bb", Fields: []Field{f("only", Simple("bool"))}}}}}
	}
	panic("ctx " + ctx)
}

// Matrix enumerates all cells, each as its own schema.
func Matrix() []Cell {
	var out []Cell
	for _, e := range MatrixElems {
		for _, sh := range MatrixShapes {
			for _, ctx := range MatrixCtxs {
				tn, defs := elemDefs(e, "")
				t, ok := applyShape(sh, Simple(tn))
				if !ok {
					continue
				}
				rec := cellRecord(ctx, "Cell", t)
				s := &Schema{Defs: append(append([]*Def{}, defs...), rec)}
				out = append(out, Cell{Elem: e, Shape: sh, Ctx: ctx, S: s, Rec: "Cell"})
			}
		}
	}
	return out
}

// Group packs the given cells into schemas of at most max cells each (shared support
// definitions per element kind), for the codec corpus.
func Group(cells []Cell, max int) []struct {
	S     *Schema
	Cells []Cell // with Rec set to the grouped record name
} {
	var out []struct {
		S     *Schema
		Cells []Cell
	}
	for i := 0; i < len(cells); i += max {
		end := i + max
		if end > len(cells) {
			end = len(cells)
		}
		s := &Schema{}
		have := map[string]string{}
		var cs []Cell
		for j, c := range cells[i:end] {
			tn, ok := have[c.Elem]
			if !ok {
				var defs []*Def
				tn, defs = elemDefs(c.Elem, "")
				s.Defs = append(s.Defs, defs...)
				have[c.Elem] = tn
			}
			t, _ := applyShape(c.Shape, Simple(tn))
			name := fmt.Sprintf("Cell%03d", j)
			s.Defs = append(s.Defs, cellRecord(c.Ctx, name, t))
			c.Rec = name
			c.S = s
			cs = append(cs, c)
		}
		out = append(out, struct {
			S     *Schema
			Cells []Cell
		}{s, cs})
	}
	return out
}
