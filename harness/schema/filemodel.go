package schema

import (
	"fmt"
	"reflect"
	"strconv"
	"strings"

	"verif/harness/model"
)

func commentOf(docs []Doc, tags []Tag) string {
	var lines []string
	for _, d := range docs {
		lines = append(lines, d.Text)
	}
	for _, t := range tags {
		lines = append(lines, t.Text())
	}
	return strings.Join(lines, "\n")
}

func tagsOf(tags []Tag) []model.Tag {
	out := []model.Tag{}
	for _, t := range tags {
		out = append(out, model.Tag{Key: t.Key, Value: t.Value, Boolean: t.Boolean})
	}
	return out
}

func TypeModel(t Type) model.FieldType {
	switch t.Kind {
	case "array":
		e := TypeModel(*t.Elem)
		return model.FieldType{Array: &e}
	case "map":
		return model.FieldType{Map: &model.MapType{Key: t.Key, Value: TypeModel(*t.Val)}}
	}
	return model.FieldType{Simple: t.Name}
}

func fieldModel(f Field) model.Field {
	return model.Field{FieldType: TypeModel(f.Type), Name: f.Name, Comment: commentOf(f.Docs, f.Tags), Tags: tagsOf(f.Tags),
		DeprecatedMessage: f.DepMsg, Deprecated: f.Deprecated}
}

func structModel(d *Def) model.Struct {
	st := model.Struct{Name: d.Name, Comment: commentOf(d.Docs, nil), OpCode: d.OpCode.Value(), ReadOnly: d.ReadOnly}
	for _, f := range d.Fields {
		st.Fields = append(st.Fields, fieldModel(f))
	}
	return st
}

func messageModel(d *Def) model.Message {
	m := model.Message{Name: d.Name, Comment: commentOf(d.Docs, nil), OpCode: d.OpCode.Value(), Fields: map[uint8]model.Field{}}
	for _, f := range d.Fields {
		m.Fields[uint8(f.Index)] = fieldModel(f)
	}
	return m
}

// ConstValue is the File's spelling of a const literal.
func ConstValue(ctype, lit string) string {
	if ctype == "float32" || ctype == "float64" {
		switch lit {
		case "inf":
			return "math.Inf(1)"
		case "-inf":
			return "math.Inf(-1)"
		case "nan":
			return "math.NaN()"
		}
	}
	return lit
}

// Expected builds the File that ReadFile must return for the schema (all comments attached
// where the printer placed them). ok=false when the schema has an enum the model cannot
// evaluate inside its base type (such schemas are not well-formed inputs for C11).
func Expected(s *Schema) (model.File, bool) {
	var f model.File
	ok := true
	for _, d := range s.Defs {
		switch d.Kind {
		case "import":
			f.Imports = append(f.Imports, d.Path)
		case "const":
			f.Consts = append(f.Consts, model.Const{SimpleType: d.CType, Comment: commentOf(d.Docs, nil), Name: d.Name, Value: ConstValue(d.CType, d.Lit)})
			if d.Name == "go_package" && d.CType == "string" {
				if u, err := strconv.Unquote(d.Lit); err == nil {
					f.GoPackage = u
				}
			}
		case "struct":
			f.Structs = append(f.Structs, structModel(d))
		case "message":
			f.Messages = append(f.Messages, messageModel(d))
		case "enum":
			en := model.Enum{Name: d.Name, Comment: commentOf(d.Docs, nil), SimpleType: d.BaseOf()}
			_, en.Unsigned = IntBits(d.BaseOf())
			vals, vok := d.OptionValues()
			if !vok {
				ok = false
			}
			for i, o := range d.Options {
				eo := model.EnumOption{Name: o.Name, Comment: commentOf(o.Docs, nil), DeprecatedMessage: o.DepMsg, Deprecated: o.Deprecated}
				if vals[i] != nil {
					if en.Unsigned {
						eo.UintValue = vals[i].Uint64()
					} else {
						eo.Value = vals[i].Int64()
					}
				}
				en.Options = append(en.Options, eo)
			}
			f.Enums = append(f.Enums, en)
		case "union":
			u := model.Union{Name: d.Name, Comment: commentOf(d.Docs, nil), OpCode: d.OpCode.Value(), Fields: map[uint8]model.UnionField{}}
			for _, b := range d.Branches {
				uf := model.UnionField{Tags: tagsOf(b.Tags), DeprecatedMessage: b.DepMsg, Deprecated: b.Deprecated}
				if b.Def.Kind == "struct" {
					st := structModel(b.Def)
					st.Comment = commentOf(b.Docs, b.Tags)
					uf.Struct = &st
				} else {
					m := messageModel(b.Def)
					m.Comment = commentOf(b.Docs, b.Tags)
					uf.Message = &m
				}
				u.Fields[uint8(b.Index)] = uf
			}
			f.Unions = append(f.Unions, u)
		}
	}
	return f, ok
}

// DiffOpts controls which parts Diff ignores.
type DiffOpts struct {
	IgnoreComments bool // Comment fields and Tags (C16: only the attachment of doc comments may differ)
	IgnoreFileName bool
}

// Diff returns "" when a and b state the same schema, else the path and values of the first
// difference. nil and empty slices/maps coincide.
func Diff(a, b model.File, o DiffOpts) string {
	return diffVal(reflect.ValueOf(a), reflect.ValueOf(b), "File", o)
}

func diffVal(a, b reflect.Value, path string, o DiffOpts) string {
	switch a.Kind() {
	case reflect.Struct:
		for i := 0; i < a.NumField(); i++ {
			name := a.Type().Field(i).Name
			if o.IgnoreComments && (name == "Comment" || name == "Tags") {
				continue
			}
			if o.IgnoreFileName && name == "FileName" {
				continue
			}
			if d := diffVal(a.Field(i), b.Field(i), path+"."+name, o); d != "" {
				return d
			}
		}
		return ""
	case reflect.Ptr:
		if a.IsNil() != b.IsNil() {
			return fmt.Sprintf("%s: nil-ness differs (%v vs %v)", path, a.IsNil(), b.IsNil())
		}
		if a.IsNil() {
			return ""
		}
		return diffVal(a.Elem(), b.Elem(), path, o)
	case reflect.Slice:
		if a.Len() != b.Len() {
			return fmt.Sprintf("%s: length %d vs %d", path, a.Len(), b.Len())
		}
		for i := 0; i < a.Len(); i++ {
			p := fmt.Sprintf("%s[%d]", path, i)
			if a.Index(i).Kind() == reflect.Struct {
				if nf := a.Index(i).FieldByName("Name"); nf.IsValid() {
					p = fmt.Sprintf("%s[%d:%s]", path, i, nf.String())
				}
			}
			if d := diffVal(a.Index(i), b.Index(i), p, o); d != "" {
				return d
			}
		}
		return ""
	case reflect.Map:
		if a.Len() != b.Len() {
			return fmt.Sprintf("%s: %d vs %d entries (keys %v vs %v)", path, a.Len(), b.Len(), a.MapKeys(), b.MapKeys())
		}
		for _, k := range a.MapKeys() {
			bv := b.MapIndex(k)
			if !bv.IsValid() {
				return fmt.Sprintf("%s: key %v missing", path, k)
			}
			if d := diffVal(a.MapIndex(k), bv, fmt.Sprintf("%s[%v]", path, k), o); d != "" {
				return d
			}
		}
		return ""
	}
	if !reflect.DeepEqual(a.Interface(), b.Interface()) {
		return fmt.Sprintf("%s: %#v vs %#v", path, a.Interface(), b.Interface())
	}
	return ""
}
