package schema

import (
	"fmt"
	"strings"
)

// Layout selects one of the permitted textual styles (DESIGN Appendix A): line breaks only
// between statements; horizontal white space free.
type Layout struct {
	Name        string
	Indent      string // indentation unit
	EOL         string // "\n" | "\r\n"
	OneLine     bool   // bodies without member comments/attributes on one line
	BlankDefs   int    // blank lines between definitions
	BlankFields bool   // blank line between members
	Tight       bool   // no optional horizontal white space
	Wide        bool   // generous horizontal white space (blanks and tabs)
	LongArrays  bool   // spell every array as array[T]
	ShortArrays bool   // spell every array as T[]
	AttrInline  bool   // attribute and the item it decorates on one line
	ImportSemi  bool
	BlockDocs   bool // line doc comments rendered as /*text*/
	LeadBlank   bool
	NoFinalEOL  bool
	SameLine    bool // consecutive one-line definitions share a line
	BlankAttr   bool // blank line between an attribute and the item it decorates (items without docs)
}

var Layouts = []Layout{
	{Name: "canonical", Indent: "    ", EOL: "\n", BlankDefs: 1},
	{Name: "tabs", Indent: "\t", EOL: "\n", BlankDefs: 1, ShortArrays: true},
	{Name: "crlf", Indent: "  ", EOL: "\r\n", BlankDefs: 1, ImportSemi: true},
	{Name: "tight-oneline", Indent: "", EOL: "\n", OneLine: true, Tight: true, BlankDefs: 0, NoFinalEOL: true},
	{Name: "wide", Indent: " \t ", EOL: "\n", Wide: true, BlankDefs: 2, BlankFields: true, LongArrays: true, LeadBlank: true},
	{Name: "blockdocs-inline", Indent: "  ", EOL: "\n", BlockDocs: true, AttrInline: true, BlankDefs: 0},
	{Name: "oneline-sameline", Indent: " ", EOL: "\n", OneLine: true, SameLine: true, BlankDefs: 0},
	{Name: "crlf-tight", Indent: "\t", EOL: "\r\n", Tight: true, BlankDefs: 1, BlockDocs: true, ImportSemi: true},
	{Name: "blank-after-attr", Indent: "  ", EOL: "\n", BlankDefs: 1, BlankAttr: true, SameLine: true, OneLine: true},
}

type printer struct {
	l      Layout
	sb     strings.Builder
	noDocs bool // the member being printed has no doc comments
}

func (p *printer) sp() string {
	if p.l.Tight {
		return ""
	}
	if p.l.Wide {
		return " \t "
	}
	return " "
}

// must: mandatory separator between two word tokens
func (p *printer) must() string {
	if p.l.Wide {
		return "  \t"
	}
	return " "
}

func (p *printer) typ(t Type) string {
	switch t.Kind {
	case "array":
		long := t.Long
		if p.l.LongArrays {
			long = true
		}
		if p.l.ShortArrays {
			long = false
		}
		if long {
			if p.l.Wide {
				return "array [ " + p.typ(*t.Elem) + " ]"
			}
			return "array[" + p.typ(*t.Elem) + "]"
		}
		if p.l.Wide {
			return p.typ(*t.Elem) + " [ ]"
		}
		return p.typ(*t.Elem) + "[]"
	case "map":
		if p.l.Tight {
			return "map[" + t.Key + "," + p.typ(*t.Val) + "]"
		}
		if p.l.Wide {
			return "map [ " + t.Key + " , " + p.typ(*t.Val) + " ]"
		}
		return "map[" + t.Key + ", " + p.typ(*t.Val) + "]"
	}
	return t.Name
}

func (p *printer) docs(ind string, docs []Doc, tags []Tag) {
	for _, d := range docs {
		if d.Block || p.l.BlockDocs {
			text := d.Text
			if p.l.EOL != "\n" {
				text = strings.ReplaceAll(text, "\n", p.l.EOL)
			}
			p.sb.WriteString(ind + "/*" + text + "*/" + p.l.EOL)
		} else {
			p.sb.WriteString(ind + "//" + d.Text + p.l.EOL)
		}
	}
	for _, t := range tags {
		// tags are only recognised in line comments
		p.sb.WriteString(ind + "//" + t.Text() + p.l.EOL)
	}
}

func (p *printer) deprecated(ind string, dep bool, msg string) string {
	if !dep {
		return ""
	}
	a := "[deprecated(" + fmt.Sprintf("%q", msg) + ")]"
	if p.l.Wide {
		a = "[ deprecated ( " + fmt.Sprintf("%q", msg) + " ) ]"
	}
	if p.l.AttrInline {
		return a + p.must()
	}
	if p.l.BlankAttr && p.noDocs {
		return a + p.l.EOL + p.l.EOL + ind
	}
	return a + p.l.EOL + ind
}

func memberPlain(docs []Doc, tags []Tag, dep bool, trailing string) bool {
	return len(docs) == 0 && len(tags) == 0 && !dep && trailing == ""
}

func (p *printer) fieldStmt(d *Def, f Field) string {
	s := ""
	if d.Kind == "message" {
		s = fmt.Sprint(f.Index) + p.sp() + "->" + p.sp()
	}
	s += p.typ(f.Type) + p.must() + f.Name
	if p.l.Wide {
		s += " "
	}
	return s + ";"
}

// body prints "{ members }" for struct/message at nesting indentation ind (the indentation
// of the line that holds the opening keyword).
func (p *printer) body(d *Def, ind string) {
	inner := ind + p.l.Indent
	plain := true
	for _, f := range d.Fields {
		if !memberPlain(f.Docs, f.Tags, f.Deprecated, f.Trailing) {
			plain = false
		}
	}
	if p.l.OneLine && plain {
		p.sb.WriteString("{")
		for _, f := range d.Fields {
			p.sb.WriteString(p.sp() + p.fieldStmt(d, f))
		}
		p.sb.WriteString(p.sp() + "}")
		return
	}
	p.sb.WriteString("{" + p.l.EOL)
	for i, f := range d.Fields {
		if i > 0 && p.l.BlankFields {
			p.sb.WriteString(p.l.EOL)
		}
		p.docs(inner, f.Docs, f.Tags)
		p.noDocs = len(f.Docs) == 0 && len(f.Tags) == 0
		p.sb.WriteString(inner + p.deprecated(inner, f.Deprecated, f.DepMsg) + p.fieldStmt(d, f))
		if f.Trailing != "" {
			p.sb.WriteString(" //" + f.Trailing)
		}
		p.sb.WriteString(p.l.EOL)
	}
	p.sb.WriteString(ind + "}")
}

func (p *printer) opcode(o *OpCode) string {
	lit := o.IntLit
	if lit == "" {
		lit = fmt.Sprintf("%q", o.Str)
	}
	if p.l.Wide {
		return "[ opcode ( " + lit + " ) ]"
	}
	return "[opcode(" + lit + ")]"
}

func (p *printer) def(d *Def, ind string) (oneLine bool) {
	start := p.sb.Len()
	switch d.Kind {
	case "import":
		p.sb.WriteString(ind + "import" + p.sp() + fmt.Sprintf("%q", d.Path))
		if p.l.ImportSemi {
			p.sb.WriteString(";")
		}
		return true
	case "const":
		p.docs(ind, d.Docs, nil)
		p.sb.WriteString(ind + "const" + p.must() + d.CType + p.must() + d.Name + p.sp() + "=" + p.sp() + d.Lit + ";")
		return len(d.Docs) == 0
	}
	p.docs(ind, d.Docs, nil)
	attr := ""
	if d.OpCode != nil {
		attr = p.opcode(d.OpCode)
	}
	if d.Flags {
		attr = "[flags]"
		if p.l.Wide {
			attr = "[ flags ]"
		}
	}
	if attr != "" {
		if p.l.AttrInline {
			p.sb.WriteString(ind + attr + p.must())
		} else if p.l.BlankAttr && len(d.Docs) == 0 {
			p.sb.WriteString(ind + attr + p.l.EOL + p.l.EOL + ind)
		} else {
			p.sb.WriteString(ind + attr + p.l.EOL + ind)
		}
	} else {
		p.sb.WriteString(ind)
	}
	switch d.Kind {
	case "struct", "message":
		if d.ReadOnly {
			p.sb.WriteString("readonly" + p.must())
		}
		p.sb.WriteString(d.Kind + p.must() + d.Name + p.sp())
		p.body(d, ind)
	case "enum":
		p.sb.WriteString("enum" + p.must() + d.Name)
		if d.Base != "" {
			p.sb.WriteString(p.sp() + ":" + p.sp() + d.Base)
		}
		p.sb.WriteString(p.sp())
		inner := ind + p.l.Indent
		plain := true
		for _, o := range d.Options {
			if len(o.Docs) > 0 || o.Deprecated {
				plain = false
			}
		}
		stmt := func(o Option) string {
			v := o.Lit
			if o.Expr != nil {
				v = ExprText(o.Expr, p.sp())
			}
			return o.Name + p.sp() + "=" + p.sp() + v + ";"
		}
		if p.l.OneLine && plain {
			p.sb.WriteString("{")
			for _, o := range d.Options {
				p.sb.WriteString(p.sp() + stmt(o))
			}
			p.sb.WriteString(p.sp() + "}")
		} else {
			p.sb.WriteString("{" + p.l.EOL)
			for i, o := range d.Options {
				if i > 0 && p.l.BlankFields {
					p.sb.WriteString(p.l.EOL)
				}
				p.docs(inner, o.Docs, nil)
				p.noDocs = len(o.Docs) == 0
				p.sb.WriteString(inner + p.deprecated(inner, o.Deprecated, o.DepMsg) + stmt(o) + p.l.EOL)
			}
			p.sb.WriteString(ind + "}")
		}
	case "union":
		p.sb.WriteString("union" + p.must() + d.Name + p.sp() + "{" + p.l.EOL)
		inner := ind + p.l.Indent
		for i, b := range d.Branches {
			if i > 0 && p.l.BlankFields {
				p.sb.WriteString(p.l.EOL)
			}
			p.docs(inner, b.Docs, b.Tags)
			p.noDocs = len(b.Docs) == 0 && len(b.Tags) == 0
			p.sb.WriteString(inner + p.deprecated(inner, b.Deprecated, b.DepMsg) + fmt.Sprint(b.Index) + p.sp() + "->" + p.sp() +
				b.Def.Kind + p.must() + b.Def.Name + p.sp())
			p.body(b.Def, inner)
			p.sb.WriteString(p.l.EOL)
		}
		p.sb.WriteString(ind + "}")
	}
	if d.Trailing != "" {
		p.sb.WriteString(" //" + d.Trailing)
		return false
	}
	return !strings.Contains(p.sb.String()[start:], "\n")
}

// Print renders the schema under a layout.
func Print(s *Schema, l Layout) string {
	p := &printer{l: l}
	if l.LeadBlank {
		p.sb.WriteString(l.EOL + "  " + l.EOL)
	}
	prevOne := false
	for i, d := range s.Defs {
		if i > 0 {
			if l.SameLine && prevOne && d.Kind != "import" && len(d.Docs) == 0 && d.OpCode == nil && !d.Flags {
				p.sb.WriteString(" ")
			} else {
				p.sb.WriteString(l.EOL)
				for k := 0; k < l.BlankDefs; k++ {
					p.sb.WriteString(l.EOL)
				}
			}
		}
		one := p.def(d, "")
		prevOne = one && d.Kind != "import"
	}
	if !l.NoFinalEOL {
		p.sb.WriteString(l.EOL)
	}
	return p.sb.String()
}
