package schema

import (
	"fmt"
	"math/rand"
	"strings"
)

// Placement is one text obtained from a base text by inserting a comment at a token boundary.
type Placement struct {
	Text string
	At   string // class of the position: after';' after'{' ...
	Form string // inline-block | inline-block+line | own-line | end-of-line | block-own-line
}

// insertion points of a schema text: offsets just after one of ; { } ] , -> = or at the start
// of a line, outside string literals and comments.
func insertionPoints(text string) (offs []int, class []string) {
	inStr := byte(0)
	i := 0
	add := func(o int, c string) {
		if len(offs) > 0 && offs[len(offs)-1] == o {
			return
		}
		offs = append(offs, o)
		class = append(class, c)
	}
	for i < len(text) {
		c := text[i]
		if inStr != 0 {
			if c == '\\' && i+1 < len(text) {
				i += 2
				continue
			}
			if c == inStr {
				inStr = 0
			}
			i++
			continue
		}
		switch {
		case c == '"' || c == '\'':
			inStr = c
			i++
		case c == '/' && i+1 < len(text) && text[i+1] == '/':
			for i < len(text) && text[i] != '\n' {
				i++
			}
		case c == '/' && i+1 < len(text) && text[i+1] == '*':
			i += 2
			for i+1 < len(text) && !(text[i] == '*' && text[i+1] == '/') {
				i++
			}
			i += 2
		case c == ';' || c == '{' || c == '}' || c == ']' || c == ',' || c == '=' || c == ')':
			i++
			add(i, "after'"+string(c)+"'")
		case c == '-' && i+1 < len(text) && text[i+1] == '>':
			i += 2
			add(i, "after'->'")
		case c == '\n':
			i++
			add(i, "line-start")
		default:
			i++
		}
	}
	return
}

func restOfLineBlank(text string, o int) bool {
	for o < len(text) && text[o] != '\n' {
		if text[o] != ' ' && text[o] != '\t' && text[o] != '\r' {
			return false
		}
		o++
	}
	return true
}

// Placements derives up to max texts from base (all of them when max <= 0).
func Placements(base string, rng *rand.Rand, max int) []Placement {
	offs, class := insertionPoints(base)
	var out []Placement
	n := 0
	for k, o := range offs {
		forms := []struct{ name, ins string }{
			{"inline-block", " /* blk */ "},
			{"own-line", "\n// own line\n"},
			{"block-own-line", "\n/* blk\n   two */\n"},
		}
		if restOfLineBlank(base, o) {
			forms = append(forms,
				struct{ name, ins string }{"end-of-line", " // eol"},
				struct{ name, ins string }{"inline-block+line", " /* blk */ // eol"})
		}
		if class[k] == "after'}'" || class[k] == "after';'" {
			// a stray separator (C-style "};"), which the parser skips where it accepts it
			forms = append(forms, struct{ name, ins string }{"stray-semicolon", ";"})
		}
		if restOfLineBlank(base, o) && k%9 == 4 {
			// line comments longer than a read buffer (4 KiB) and longer than two
			for _, n := range []int{4200, 9100} {
				forms = append(forms, struct{ name, ins string }{fmt.Sprintf("end-of-line-%d-bytes", n), " // " + strings.Repeat("long comment ", n/13)})
			}
		}
		for _, f := range forms {
			n++
			out = append(out, Placement{Text: base[:o] + f.ins + base[o:], At: class[k], Form: f.name})
		}
	}
	if max > 0 && len(out) > max {
		rng.Shuffle(len(out), func(i, j int) { out[i], out[j] = out[j], out[i] })
		out = out[:max]
	}
	_ = fmt.Sprint
	return out
}
