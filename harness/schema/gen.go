package schema

import (
	"fmt"
	"math/big"
	"math/rand"
	"strings"
)

// GenCfg steers random schema generation.
type GenCfg struct {
	Imports     bool // emit import statements (front-end only workloads)
	Comments    bool // doc comments, tags, trailing comments after fields
	Attrs       bool // opcodes, deprecated, readonly, flags
	Consts      bool
	MaxDefs     int
	MaxDepth    int  // nesting depth of type expressions
	NoFloatKeys bool // avoid float map keys (NaN keys are unreadable back)
	CodecSafe   bool // restrict to shapes the codec corpus wants (no imports, GoPackage const optional)
	// Avoid lists feature names that must not appear (known-finding loci); see Features().
	Avoid map[string]bool
}

type Gen struct {
	R   *rand.Rand
	Cfg GenCfg
	n   int
}

var fieldPool = []string{"alpha", "beta", "gamma", "delta", "count", "label", "ident", "items", "table", "stamp", "ratio", "blob",
	"nested", "extra", "owner", "price", "width", "height", "score", "title", "body", "when", "uuid", "level", "mode", "total", "first", "second"}

var docPool = []string{" plain doc", " second line of documentation", "no leading space", "  two leading spaces ", " punctuation: [x] {y} (z); = -> \"q\"", " unicode ✓ é", " trailing tab\t", ""}

func (g *Gen) id(prefix string) string {
	g.n++
	return fmt.Sprintf("%s%d", prefix, g.n)
}

func (g *Gen) pick(ss []string) string { return ss[g.R.Intn(len(ss))] }

func (g *Gen) docs(p float64) []Doc {
	if !g.Cfg.Comments || g.R.Float64() > p {
		return nil
	}
	var out []Doc
	n := 1 + g.R.Intn(3)
	for i := 0; i < n; i++ {
		d := Doc{Text: g.pick(docPool)}
		if g.R.Intn(6) == 0 {
			d.Block = true
			d.Text = " block " + fmt.Sprint(g.R.Intn(100)) + " "
			if g.R.Intn(2) == 0 && !g.Cfg.Avoid["comment.multiline_block"] {
				d.Text = " first\n   second line\n third "
			}
		}
		out = append(out, d)
	}
	return out
}

func (g *Gen) tags() []Tag {
	if !g.Cfg.Comments || g.R.Intn(5) != 0 {
		return nil
	}
	out := []Tag{{Key: "json", Value: "name,omitempty"}}
	if g.R.Intn(2) == 0 {
		out = append(out, Tag{Key: "db", Value: "col:\"x\""})
	}
	if g.R.Intn(3) == 0 {
		out = append(out, Tag{Key: "boolish", Boolean: true})
	}
	return out
}

func (g *Gen) dep() (bool, string) {
	if !g.Cfg.Attrs || g.R.Intn(6) != 0 {
		return false, ""
	}
	return true, g.pick([]string{"use other", "", "gone in v2", "with \"quotes\""})
}

// typeExpr draws a type expression. refs = names usable as simple types.
func (g *Gen) typeExpr(depth int, refs []string) Type {
	r := g.R.Intn(10)
	switch {
	case depth > 0 && r < 2:
		t := g.typeExpr(depth-1, refs)
		if g.R.Intn(2) == 0 {
			return LongArrayOf(t)
		}
		return ArrayOf(t)
	case depth > 0 && r < 4:
		keys := []string{"string", "int32", "uint8", "bool", "guid", "int64", "uint16", "date", "uint64", "int16", "uint32", "byte"}
		if !g.Cfg.NoFloatKeys {
			keys = append(keys, "float32", "float64")
		}
		return MapOf(g.pick(keys), g.typeExpr(depth-1, refs))
	case r < 7 || len(refs) == 0:
		return Simple(g.pick(Primitives))
	}
	return Simple(g.pick(refs))
}

func (g *Gen) fields(n int, refs []string, message bool) []Field {
	var out []Field
	used := map[string]bool{}
	idx := 0
	for i := 0; i < n; i++ {
		name := g.pick(fieldPool)
		for used[name] {
			name = g.pick(fieldPool) + fmt.Sprint(g.R.Intn(9))
		}
		used[name] = true
		f := Field{Name: name, Type: g.typeExpr(g.Cfg.MaxDepth, refs), Docs: g.docs(0.3), Tags: g.tags()}
		if message {
			idx += 1 + g.R.Intn(3)
			f.Index = idx
			f.Deprecated, f.DepMsg = g.dep()
		} else if g.R.Intn(12) == 0 {
			f.Deprecated, f.DepMsg = g.dep()
		}
		if g.Cfg.Comments && g.R.Intn(8) == 0 {
			f.Trailing = " trailing note"
		}
		out = append(out, f)
	}
	return out
}

func (g *Gen) opcode() *OpCode {
	if !g.Cfg.Attrs || g.R.Intn(3) != 0 {
		return nil
	}
	switch g.R.Intn(3) {
	case 0:
		v := uint32(g.R.Int63n(1<<32-1)) + 1
		return &OpCode{Int: v, IntLit: fmt.Sprint(v)}
	case 1:
		v := uint32(g.R.Int63n(1<<32-1)) + 1
		return &OpCode{Int: v, IntLit: fmt.Sprintf("0x%X", v)}
	}
	const cs = "abcdefghijklmnopqrstuvwxyzABCDEFGHIJKLMNOPQRSTUVWXYZ0123456789"
	b := make([]byte, 4)
	for i := range b {
		b[i] = cs[g.R.Intn(len(cs))]
	}
	return &OpCode{Str: string(b)}
}

func bigPow2(n int) *big.Int { return new(big.Int).Lsh(big.NewInt(1), uint(n)) }

func rangeOf(base string) (lo, hi *big.Int) {
	bits, uns := IntBits(base)
	if uns {
		return big.NewInt(0), new(big.Int).Sub(bigPow2(bits), big.NewInt(1))
	}
	return new(big.Int).Neg(bigPow2(bits - 1)), new(big.Int).Sub(bigPow2(bits-1), big.NewInt(1))
}

func (g *Gen) litIn(base string) (string, *big.Int) {
	lo, hi := rangeOf(base)
	var v *big.Int
	switch g.R.Intn(6) {
	case 0:
		v = lo
	case 1:
		v = hi
	default:
		span := new(big.Int).Sub(hi, lo)
		v = new(big.Int).Rand(g.R, span)
		v.Add(v, lo)
		if g.R.Intn(2) == 0 {
			v = big.NewInt(int64(g.R.Intn(100)))
		}
	}
	if v.Sign() >= 0 && g.R.Intn(3) == 0 {
		return "0x" + strings.ToUpper(v.Text(16)), v
	}
	return v.String(), v
}

// flagExpr draws an expression evaluable inside base whose value is the same under the
// repository's reading (right-associative, no precedence) and upstream's (C precedence).
func (g *Gen) flagExpr(depth int, base string, env map[string]*big.Int, names []string) *Expr {
	bits, uns := IntBits(base)
	for try := 0; try < 80; try++ {
		e := g.rawExpr(depth, bits, names)
		v1, ok1 := EvalExpr(e, env, bits, uns)
		if !ok1 {
			continue
		}
		v2, ok2 := EvalCPrecedence(e, env, bits, uns)
		if ok2 && v1.Cmp(v2) == 0 {
			return e
		}
	}
	return &Expr{Lit: "1"}
}

// rawExpr draws a tree in the shape the repository's parser builds (left operands are
// atoms or parenthesised), so that its printed form parses back to the same tree.
func (g *Gen) rawExpr(depth, bits int, names []string) *Expr {
	atom := func() *Expr {
		if len(names) > 0 && g.R.Intn(3) == 0 {
			return &Expr{Ident: g.pick(names)}
		}
		v := g.R.Intn(bits)
		switch g.R.Intn(3) {
		case 0:
			return &Expr{Lit: fmt.Sprint(v)}
		case 1:
			return &Expr{Lit: fmt.Sprintf("0x%x", 1<<uint(v%16))}
		}
		return &Expr{Lit: fmt.Sprint(g.R.Intn(200))}
	}
	if depth <= 0 || g.R.Intn(4) == 0 {
		return atom()
	}
	left := atom()
	if g.R.Intn(3) == 0 {
		left = &Expr{Op: "()", L: g.rawExpr(depth-1, bits, names)}
	}
	op := g.pick([]string{"|", "&", "<<", ">>", "|", "&", "<<"})
	right := g.rawExpr(depth-1, bits, names)
	e := &Expr{Op: op, L: left, R: right}
	if g.R.Intn(5) == 0 {
		return &Expr{Op: "()", L: e}
	}
	return e
}

func (g *Gen) enum(flags bool) *Def {
	d := &Def{Kind: "enum", Name: g.id("Enm"), Docs: g.docs(0.3), Flags: flags}
	if g.R.Intn(3) != 0 && !g.Cfg.Avoid["enum.typed"] {
		d.Base = g.pick(EnumBases)
	}
	n := 1 + g.R.Intn(5)
	seen := map[string]bool{}
	env := map[string]*big.Int{}
	var names []string
	for i := 0; i < n; i++ {
		o := Option{Name: fmt.Sprintf("Opt%c", 'A'+i), Docs: g.docs(0.2)}
		o.Deprecated, o.DepMsg = g.dep()
		var v *big.Int
		for try := 0; try < 30; try++ {
			if flags {
				o.Expr = g.flagExpr(2, d.BaseOf(), env, names)
				bits, uns := IntBits(d.BaseOf())
				v, _ = EvalExpr(o.Expr, env, bits, uns)
			} else {
				o.Lit, v = g.litIn(d.BaseOf())
			}
			if !seen[v.String()] {
				break
			}
			v = nil
		}
		if v == nil {
			continue
		}
		seen[v.String()] = true
		env[o.Name] = v
		names = append(names, o.Name)
		d.Options = append(d.Options, o)
	}
	if len(d.Options) == 0 {
		d.Options = []Option{{Name: "OptA", Lit: "1"}}
		if flags {
			d.Options = []Option{{Name: "OptA", Expr: &Expr{Lit: "1"}}}
		}
	}
	return d
}

var constLits = map[string][]string{
	"bool": {"true", "false"}, "byte": {"0", "255", "0x7F"}, "uint8": {"7"}, "uint16": {"65535", "0xABCD"}, "int16": {"-32768", "32767"},
	"uint32": {"4294967295", "0xFFFFFFFF", "0"}, "int32": {"-2147483648", "2147483647", "-1"},
	"uint64": {"18446744073709551615", "0xFFFFFFFFFFFFFFFF", "1"}, "int64": {"-9223372036854775808", "9223372036854775807"},
	"float32": {"1.5", "-0.25", "3", "inf", "-inf", "nan", "1.5e3", "-2"}, "float64": {"2.718281828", "-1e10", "inf", "-inf", "nan", "0.0", "12345678"},
	"string": {`"hello"`, `""`, `"quote \" inside"`, `"tab\t and newline\n"`, `"unicode ✓"`, `"back\\slash"`},
	"guid":   {`"e215a946-b26f-4567-a276-13136f0a1708"`, `"00000000-0000-0000-0000-000000000000"`, `"E215A946B26F4567A27613136F0A1708"`},
}

func (g *Gen) constDef() *Def {
	types := []string{"bool", "byte", "uint8", "uint16", "int16", "uint32", "int32", "uint64", "int64", "float32", "float64", "string", "guid"}
	t := g.pick(types)
	return &Def{Kind: "const", Name: g.id("cst"), CType: t, Lit: g.pick(constLits[t]), Docs: g.docs(0.3)}
}

// Random draws a well-formed schema.
func (g *Gen) Random() *Schema {
	s := &Schema{}
	cfg := g.Cfg
	if cfg.MaxDefs == 0 {
		cfg.MaxDefs = 7
	}
	if cfg.Imports {
		for i := 0; i < g.R.Intn(3); i++ {
			s.Defs = append(s.Defs, &Def{Kind: "import", Path: g.pick([]string{"./other.bop", "sub/dir/file.bop", "../up.bop", "a b.bop"})})
		}
	}
	var refs []string    // usable from message/union-branch-message fields and struct fields alike
	var structs []string // earlier structs and enums only (struct fields: no cycles)
	n := 2 + g.R.Intn(cfg.MaxDefs-1)
	// decide kinds first so messages may refer forward
	kinds := make([]string, n)
	names := make([]string, n)
	for i := range kinds {
		kinds[i] = g.pick([]string{"struct", "struct", "message", "message", "enum", "flags", "union", "const"})
		if kinds[i] == "const" && !cfg.Consts {
			kinds[i] = "struct"
		}
		if kinds[i] == "flags" && cfg.Avoid["enum.flags"] {
			kinds[i] = "enum"
		}
		switch kinds[i] {
		case "struct":
			names[i] = g.id("Rec")
		case "message":
			names[i] = g.id("Msg")
		case "union":
			names[i] = g.id("Uni")
		}
	}
	for i, k := range kinds {
		if k == "message" || k == "union" {
			refs = append(refs, names[i])
		}
	}
	for i, k := range kinds {
		switch k {
		case "enum", "flags":
			d := g.enum(k == "flags")
			s.Defs = append(s.Defs, d)
			refs = append(refs, d.Name)
			structs = append(structs, d.Name)
		case "const":
			s.Defs = append(s.Defs, g.constDef())
		case "struct":
			d := &Def{Kind: "struct", Name: names[i], Docs: g.docs(0.4), OpCode: g.opcode()}
			if cfg.Attrs && g.R.Intn(4) == 0 {
				d.ReadOnly = true
			}
			// struct fields may use earlier structs/enums plus any message/union
			var fr []string
			fr = append(fr, structs...)
			for j, kk := range kinds {
				if kk == "message" || kk == "union" {
					fr = append(fr, names[j])
				}
			}
			d.Fields = g.fields(g.R.Intn(5), fr, false)
			s.Defs = append(s.Defs, d)
			structs = append(structs, d.Name)
			refs = append(refs, d.Name)
		case "message":
			d := &Def{Kind: "message", Name: names[i], Docs: g.docs(0.4), OpCode: g.opcode()}
			all := append(append([]string{}, refs...), structs...)
			d.Fields = g.fields(g.R.Intn(5), dedup(all), true)
			s.Defs = append(s.Defs, d)
		case "union":
			d := &Def{Kind: "union", Name: names[i], Docs: g.docs(0.4), OpCode: g.opcode()}
			nb := 1 + g.R.Intn(3)
			idx := 0
			for b := 0; b < nb; b++ {
				idx += 1 + g.R.Intn(2)
				br := Branch{Index: idx, Docs: g.docs(0.3), Tags: g.tags()}
				br.Deprecated, br.DepMsg = g.dep()
				if g.R.Intn(2) == 0 {
					br.Def = &Def{Kind: "struct", Name: g.id("Brs"), Fields: g.fields(g.R.Intn(3), structs, false)}
				} else {
					all := append(append([]string{}, refs...), structs...)
					br.Def = &Def{Kind: "message", Name: g.id("Brm"), Fields: g.fields(g.R.Intn(3), dedup(all), true)}
				}
				d.Branches = append(d.Branches, br)
			}
			s.Defs = append(s.Defs, d)
		}
	}
	// opcodes must be distinct
	seen := map[uint32]bool{}
	for _, d := range s.Defs {
		if d.OpCode != nil {
			if seen[d.OpCode.Value()] {
				d.OpCode = nil
			} else {
				seen[d.OpCode.Value()] = true
			}
		}
	}
	return s
}

func dedup(ss []string) []string {
	seen := map[string]bool{}
	var out []string
	for _, s := range ss {
		if !seen[s] {
			seen[s] = true
			out = append(out, s)
		}
	}
	return out
}

// Features reports the construct classes a schema contains (the vocabulary of finding loci).
func Features(s *Schema) map[string]bool {
	f := map[string]bool{}
	var walkT func(t Type, ctx string)
	walkT = func(t Type, ctx string) {
		switch t.Kind {
		case "array":
			if t.Elem.Kind == "array" && !t.Long && !t.Elem.Long {
				f["type.suffix_array_2d"] = true
			}
			if t.Elem.Kind == "array" {
				f["type.array_2d"] = true
			}
			if t.Long {
				f["type.long_array"] = true
			}
			walkT(*t.Elem, ctx)
		case "map":
			f["type.map"] = true
			walkT(*t.Val, ctx)
		}
	}
	for _, d := range s.All() {
		switch d.Kind {
		case "import":
			f["import"] = true
		case "enum":
			if d.Base != "" {
				f["enum.typed"] = true
			}
			if d.Flags {
				f["enum.flags"] = true
			}
		}
		if d.Trailing != "" {
			f["comment.trailing_after_brace"] = true
		}
		for _, dd := range d.Docs {
			if dd.Block && strings.Contains(dd.Text, "\n") {
				f["comment.multiline_block"] = true
			}
		}
		for _, fd := range d.Fields {
			walkT(fd.Type, d.Kind)
			for _, dd := range fd.Docs {
				if dd.Block && strings.Contains(dd.Text, "\n") {
					f["comment.multiline_block"] = true
				}
			}
		}
	}
	return f
}

// FlagsEnum draws a [flags] enum over base whose members are precedence-independent
// expression trees up to the given depth with pairwise distinct values.
func (g *Gen) FlagsEnum(name, base string, depth, maxOpts int) *Def {
	d := &Def{Kind: "enum", Name: name, Flags: true, Base: base}
	bits, uns := IntBits(base)
	seen := map[string]bool{}
	env := map[string]*big.Int{}
	var names []string
	n := 2 + g.R.Intn(maxOpts-1)
	for i := 0; i < n; i++ {
		o := Option{Name: fmt.Sprintf("Opt%c", 'A'+i)}
		var v *big.Int
		for try := 0; try < 40; try++ {
			o.Expr = g.flagExpr(1+g.R.Intn(depth), base, env, names)
			v, _ = EvalExpr(o.Expr, env, bits, uns)
			if v != nil && !seen[v.String()] {
				break
			}
			v = nil
		}
		if v == nil {
			continue
		}
		seen[v.String()] = true
		env[o.Name] = v
		names = append(names, o.Name)
		d.Options = append(d.Options, o)
	}
	if len(d.Options) == 0 {
		d.Options = []Option{{Name: "OptA", Expr: &Expr{Lit: "1"}}}
	}
	return d
}
