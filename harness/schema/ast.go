// Package schema is the harness's own model of the Bebop schema language: an AST, a
// layout-parameterised printer, the expected-File model (filemodel), evaluators for
// literals and [flags] expressions, and generators. It shares no code with the repository.
package schema

import (
	"fmt"
	"math/big"
	"sort"
	"strings"
)

var Primitives = []string{"bool", "byte", "uint8", "uint16", "int16", "uint32", "int32", "uint64", "int64", "float32", "float64", "string", "guid", "date"}

var EnumBases = []string{"uint8", "byte", "uint16", "int16", "uint32", "int32", "uint64", "int64"}

func IsPrimitive(s string) bool {
	for _, p := range Primitives {
		if p == s {
			return true
		}
	}
	return false
}

// Type is a type expression.
type Type struct {
	Kind string // "simple" | "array" | "map"
	Name string // simple: primitive or definition name
	Elem *Type  // array element
	Long bool   // array spelled array[T] rather than T[]
	Key  string // map key (primitive name)
	Val  *Type  // map value
}

func Simple(n string) Type        { return Type{Kind: "simple", Name: n} }
func ArrayOf(t Type) Type         { return Type{Kind: "array", Elem: &t} }
func LongArrayOf(t Type) Type     { return Type{Kind: "array", Elem: &t, Long: true} }
func MapOf(k string, v Type) Type { return Type{Kind: "map", Key: k, Val: &v} }
func (t Type) IsSimple() bool     { return t.Kind == "simple" }
func (t Type) IsPrim() bool       { return t.Kind == "simple" && IsPrimitive(t.Name) }

// String is the canonical (layout-free) spelling used in keys and reports.
func (t Type) String() string {
	switch t.Kind {
	case "array":
		return t.Elem.String() + "[]"
	case "map":
		return "map[" + t.Key + "," + t.Val.String() + "]"
	}
	return t.Name
}

// Leaf returns the innermost simple type name.
func (t Type) Leaf() string {
	switch t.Kind {
	case "array":
		return t.Elem.Leaf()
	case "map":
		return t.Val.Leaf()
	}
	return t.Name
}

// Refs lists every definition name referenced by the type expression.
func (t Type) Refs() []string {
	switch t.Kind {
	case "array":
		return t.Elem.Refs()
	case "map":
		return t.Val.Refs()
	}
	if IsPrimitive(t.Name) {
		return nil
	}
	return []string{t.Name}
}

// Doc is one doc-comment item.
type Doc struct {
	Text  string // text after "//" or between "/*" and "*/"
	Block bool   // forced block comment (may contain newlines)
}

type Tag struct {
	Key, Value string
	Boolean    bool
}

func (t Tag) Text() string {
	if t.Boolean {
		return "[tag(" + t.Key + ")]"
	}
	return "[tag(" + t.Key + ":" + fmt.Sprintf("%q", t.Value) + ")]"
}

type Field struct {
	Name       string
	Type       Type
	Index      int // message fields
	Deprecated bool
	DepMsg     string
	Docs       []Doc
	Tags       []Tag  // rendered as //[tag(...)] doc lines after Docs
	Trailing   string // trailing "// text" after the ';' (belongs to nothing)
}

// Expr is a [flags] expression.
type Expr struct {
	Op    string // "" leaf | "|" "&" "<<" ">>" | "()" paren
	Lit   string // leaf: integer literal text
	Ident string // leaf: earlier option name
	L, R  *Expr
}

type Option struct {
	Name       string
	Lit        string // plain enum: literal text
	Expr       *Expr  // flags enum
	Deprecated bool
	DepMsg     string
	Docs       []Doc
}

type OpCode struct {
	Int    uint32
	IntLit string // spelling of the integer form
	Str    string // 4-char form (used when IntLit == "")
}

func (o *OpCode) Value() uint32 {
	if o == nil {
		return 0
	}
	if o.IntLit != "" {
		return o.Int
	}
	return uint32(o.Str[0]) | uint32(o.Str[1])<<8 | uint32(o.Str[2])<<16 | uint32(o.Str[3])<<24
}

type Branch struct {
	Index      int
	Def        *Def // struct or message
	Deprecated bool
	DepMsg     string
	Docs       []Doc
	Tags       []Tag
}

type Def struct {
	Kind     string // struct | message | enum | union | const | import
	Name     string
	Docs     []Doc
	OpCode   *OpCode
	ReadOnly bool
	Fields   []Field
	// enum
	Base    string // "" = default
	Flags   bool
	Options []Option
	// union
	Branches []Branch
	// const
	CType string
	Lit   string
	// import
	Path string
	// Trailing is a "// text" comment placed after the closing '}' on the same line.
	Trailing string
}

type Schema struct {
	Defs []*Def
}

// All returns every record/enum definition including union branches, in source order.
func (s *Schema) All() []*Def {
	var out []*Def
	for _, d := range s.Defs {
		out = append(out, d)
		if d.Kind == "union" {
			for _, b := range d.Branches {
				out = append(out, b.Def)
			}
		}
	}
	return out
}

func (s *Schema) Find(name string) *Def {
	for _, d := range s.All() {
		if d.Name == name && d.Kind != "const" && d.Kind != "import" {
			return d
		}
	}
	return nil
}

// BaseOf returns the effective base type of an enum.
func (d *Def) BaseOf() string {
	if d.Base == "" {
		return "uint32"
	}
	return d.Base
}

func IntBits(base string) (bits int, unsigned bool) {
	switch base {
	case "byte", "uint8":
		return 8, true
	case "uint16":
		return 16, true
	case "uint32":
		return 32, true
	case "uint64":
		return 64, true
	case "int16":
		return 16, false
	case "int32":
		return 32, false
	case "int64":
		return 64, false
	}
	return 0, false
}

// ParseIntLit evaluates an integer literal (decimal, 0x hex, optional leading '-').
func ParseIntLit(s string) (*big.Int, bool) {
	neg := false
	t := s
	if strings.HasPrefix(t, "-") {
		neg = true
		t = t[1:]
	}
	v := new(big.Int)
	var ok bool
	if strings.HasPrefix(t, "0x") || strings.HasPrefix(t, "0X") {
		_, ok = v.SetString(t[2:], 16)
	} else {
		_, ok = v.SetString(t, 10)
	}
	if !ok {
		return nil, false
	}
	if neg {
		v.Neg(v)
	}
	return v, true
}

// wrap reduces v into the value range of the base type (two's complement).
func wrap(v *big.Int, bits int, unsigned bool) *big.Int {
	mod := new(big.Int).Lsh(big.NewInt(1), uint(bits))
	r := new(big.Int).Mod(v, mod)
	if !unsigned {
		half := new(big.Int).Lsh(big.NewInt(1), uint(bits-1))
		if r.Cmp(half) >= 0 {
			r.Sub(r, mod)
		}
	}
	return r
}

func InRange(v *big.Int, bits int, unsigned bool) bool {
	return wrap(v, bits, unsigned).Cmp(v) == 0
}

// EvalExpr evaluates a flags expression with unbounded integers; ok=false if any
// intermediate value leaves the base type's range or a shift amount is out of [0,bits)
// (the generators only emit expressions for which ok is true, see DESIGN section 8).
func EvalExpr(e *Expr, env map[string]*big.Int, bits int, unsigned bool) (*big.Int, bool) {
	switch e.Op {
	case "":
		if e.Ident != "" {
			v, ok := env[e.Ident]
			return v, ok
		}
		v, ok := ParseIntLit(e.Lit)
		if !ok || !InRange(v, bits, unsigned) {
			return nil, false
		}
		return v, true
	case "()":
		return EvalExpr(e.L, env, bits, unsigned)
	}
	l, ok := EvalExpr(e.L, env, bits, unsigned)
	if !ok {
		return nil, false
	}
	r, ok := EvalExpr(e.R, env, bits, unsigned)
	if !ok {
		return nil, false
	}
	var v *big.Int
	switch e.Op {
	case "|":
		v = new(big.Int).Or(l, r)
	case "&":
		v = new(big.Int).And(l, r)
	case "<<":
		if r.Sign() < 0 || r.Cmp(big.NewInt(int64(bits))) >= 0 {
			return nil, false
		}
		v = new(big.Int).Lsh(l, uint(r.Int64()))
	case ">>":
		if r.Sign() < 0 || r.Cmp(big.NewInt(int64(bits))) >= 0 {
			return nil, false
		}
		v = new(big.Int).Rsh(l, uint(r.Int64()))
	default:
		return nil, false
	}
	if !InRange(v, bits, unsigned) {
		return nil, false
	}
	return v, true
}

// ExprText prints an expression (sp = spacing around operators).
func ExprText(e *Expr, sp string) string {
	switch e.Op {
	case "":
		if e.Ident != "" {
			return e.Ident
		}
		return e.Lit
	case "()":
		return "(" + ExprText(e.L, sp) + ")"
	}
	return ExprText(e.L, sp) + sp + e.Op + sp + ExprText(e.R, sp)
}

// PrecedenceFree reports whether the value of e is the same under right-associative
// no-precedence parsing (the repository) and C precedence (upstream): every binary node's
// operands are leaves/parenthesised, or the whole chain uses one associative operator.
func PrecedenceFree(e *Expr) bool {
	switch e.Op {
	case "":
		return true
	case "()":
		return PrecedenceFree(e.L)
	}
	atom := func(x *Expr) bool { return x.Op == "" || x.Op == "()" }
	if atom(e.L) && atom(e.R) {
		return PrecedenceFree(e.L) && PrecedenceFree(e.R)
	}
	// chain of one associative operator, printed without parentheses: a | b | c
	if e.Op == "|" || e.Op == "&" {
		var flat func(x *Expr) bool
		flat = func(x *Expr) bool {
			if atom(x) {
				return PrecedenceFree(x)
			}
			return x.Op == e.Op && flat(x.L) && flat(x.R)
		}
		return flat(e)
	}
	return false
}

// OptionValues evaluates every option of an enum; ok=false if some option cannot be
// evaluated inside the base type.
func (d *Def) OptionValues() ([]*big.Int, bool) {
	bits, uns := IntBits(d.BaseOf())
	env := map[string]*big.Int{}
	out := make([]*big.Int, len(d.Options))
	for i, o := range d.Options {
		var v *big.Int
		var ok bool
		if o.Expr != nil {
			v, ok = EvalExpr(o.Expr, env, bits, uns)
		} else {
			v, ok = ParseIntLit(o.Lit)
			if ok && !InRange(v, bits, uns) {
				ok = false
			}
		}
		if !ok {
			return out, false
		}
		out[i] = v
		env[o.Name] = v
	}
	return out, true
}

// SortedFields returns message fields ordered by index.
func (d *Def) SortedFields() []Field {
	fs := append([]Field(nil), d.Fields...)
	if d.Kind == "message" {
		sort.SliceStable(fs, func(i, j int) bool { return fs[i].Index < fs[j].Index })
	}
	return fs
}

// SortedBranches returns union branches ordered by discriminator.
func (d *Def) SortedBranches() []Branch {
	bs := append([]Branch(nil), d.Branches...)
	sort.SliceStable(bs, func(i, j int) bool { return bs[i].Index < bs[j].Index })
	return bs
}

// EvalCPrecedence evaluates the printed form of e the way upstream Bebop (C operator
// precedence, left associativity: shifts bind tighter than &, & tighter than |) reads it.
func EvalCPrecedence(e *Expr, env map[string]*big.Int, bits int, unsigned bool) (*big.Int, bool) {
	toks := strings.Fields(ExprText(e, " "))
	// split parentheses glued to atoms
	var ts []string
	for _, t := range toks {
		for strings.HasPrefix(t, "(") {
			ts = append(ts, "(")
			t = t[1:]
		}
		var tail []string
		for strings.HasSuffix(t, ")") {
			tail = append(tail, ")")
			t = t[:len(t)-1]
		}
		if t != "" {
			ts = append(ts, t)
		}
		ts = append(ts, tail...)
	}
	pos := 0
	ok := true
	prec := map[string]int{"|": 1, "&": 2, "<<": 3, ">>": 3}
	var parseExpr func(minPrec int) *big.Int
	parseAtom := func() *big.Int {
		if pos >= len(ts) {
			ok = false
			return big.NewInt(0)
		}
		t := ts[pos]
		pos++
		if t == "(" {
			v := parseExpr(1)
			if pos < len(ts) && ts[pos] == ")" {
				pos++
			} else {
				ok = false
			}
			return v
		}
		if v, isInt := ParseIntLit(t); isInt {
			if !InRange(v, bits, unsigned) {
				ok = false
			}
			return v
		}
		if v, have := env[t]; have {
			return v
		}
		ok = false
		return big.NewInt(0)
	}
	parseExpr = func(minPrec int) *big.Int {
		lhs := parseAtom()
		for ok && pos < len(ts) {
			op := ts[pos]
			p, isOp := prec[op]
			if !isOp || p < minPrec {
				break
			}
			pos++
			rhs := parseExpr(p + 1)
			if !ok {
				break
			}
			switch op {
			case "|":
				lhs = new(big.Int).Or(lhs, rhs)
			case "&":
				lhs = new(big.Int).And(lhs, rhs)
			case "<<", ">>":
				if rhs.Sign() < 0 || rhs.Cmp(big.NewInt(int64(bits))) >= 0 {
					ok = false
					return lhs
				}
				if op == "<<" {
					lhs = new(big.Int).Lsh(lhs, uint(rhs.Int64()))
				} else {
					lhs = new(big.Int).Rsh(lhs, uint(rhs.Int64()))
				}
			}
			if !InRange(lhs, bits, unsigned) {
				ok = false
			}
		}
		return lhs
	}
	v := parseExpr(1)
	if pos != len(ts) {
		ok = false
	}
	return v, ok
}
