// Package model mirrors the exported shape of bebop.File on the controller side (the
// controller never links the repository). JSON field names follow the Go field names that
// encoding/json derives from bebop's exported struct fields.
package model

type File struct {
	FileName  string
	GoPackage string
	Structs   []Struct
	Messages  []Message
	Enums     []Enum
	Unions    []Union
	Consts    []Const
	Imports   []string
}

type Struct struct {
	Name      string
	Comment   string
	Fields    []Field
	OpCode    uint32
	Namespace string
	ReadOnly  bool
}

type FieldType struct {
	Simple string
	Map    *MapType
	Array  *FieldType
}

type MapType struct {
	Key   string
	Value FieldType
}

type Field struct {
	FieldType
	Name              string
	Comment           string
	Tags              []Tag
	DeprecatedMessage string
	Deprecated        bool
}

type Tag struct {
	Key     string
	Value   string
	Boolean bool
}

type Message struct {
	Name      string
	Comment   string
	Fields    map[uint8]Field
	OpCode    uint32
	Namespace string
}

type Union struct {
	Name      string
	Comment   string
	Fields    map[uint8]UnionField
	OpCode    uint32
	Namespace string
}

type UnionField struct {
	Message           *Message
	Struct            *Struct
	Tags              []Tag
	DeprecatedMessage string
	Deprecated        bool
}

type Enum struct {
	Name       string
	Comment    string
	Options    []EnumOption
	Namespace  string
	SimpleType string
	Unsigned   bool
}

type EnumOption struct {
	Name              string
	Comment           string
	DeprecatedMessage string
	Value             int64
	UintValue         uint64
	Deprecated        bool
}

type Const struct {
	SimpleType string
	Comment    string
	Name       string
	Value      string
}
