// Package fuzz holds the coverage-guided tier of C10: the same oracle as the C10 decider
// (termination, completeness under an appended definition, reader drained) inside a
// native Go fuzz target that links /repo's bebop package. It is run by `vcheck C10` in the
// thorough tier from a scratch copy, never from this directory.
package fuzz

import (
	"bytes"
	"io"
	"os"
	"path/filepath"
	"strings"
	"testing"
	"time"

	"github.com/200sc/bebop"
)

const appended = "\nstruct VerifAppendedZz {\n\tint32 verifq;\n}\n"

type countingReader struct {
	r      io.Reader
	sawEOF bool
	n      int
}

func (c *countingReader) Read(p []byte) (int, error) {
	n, err := c.r.Read(p)
	c.n += n
	if err == io.EOF {
		c.sawEOF = true
	}
	return n, err
}

func FuzzReadFile(f *testing.F) {
	for _, dir := range []string{"base", "incompatible", "invalid"} {
		root := filepath.Join(os.Getenv("VERIF_REPO"), "testdata", dir)
		ents, _ := os.ReadDir(root)
		for _, e := range ents {
			if strings.HasSuffix(e.Name(), ".bop") {
				if b, err := os.ReadFile(filepath.Join(root, e.Name())); err == nil && len(b) < 4000 {
					f.Add(b)
				}
			}
		}
	}
	f.Add([]byte("struct A {\n int32 a;\n}\n"))
	f.Add([]byte("[flags]\nenum E : int32 {\n A = 1 << 2;\n}\nunion U {\n 1 -> struct S { int32 a; }\n}\n"))
	f.Fuzz(func(t *testing.T, data []byte) {
		if len(data) > 4096 {
			return
		}
		done := make(chan struct{})
		var file bebop.File
		var err error
		cr := &countingReader{r: bytes.NewReader(data)}
		go func() {
			defer close(done)
			file, _, err = bebop.ReadFile(cr)
		}()
		select {
		case <-done:
		case <-time.After(20 * time.Second):
			t.Fatalf("ReadFile did not return within 20s")
		}
		_ = file
		if err != nil {
			return
		}
		if !cr.sawEOF || cr.n != len(data) {
			t.Fatalf("success without draining the reader: read %d of %d bytes, EOF seen: %v", cr.n, len(data), cr.sawEOF)
		}
		f2, _, err2 := bebop.ReadFile(bytes.NewReader(append(append([]byte{}, data...), appended...)))
		if err2 != nil {
			return
		}
		for _, s := range f2.Structs {
			if s.Name == "VerifAppendedZz" {
				return
			}
		}
		t.Fatalf("appended definition silently dropped")
	})
}
