// Package core holds the plumbing shared by every check: the run record (evidence,
// three-valued verdicts, known-finding matching, replay files) and the child-process
// supervisor. It never imports the repository under test.
package core

import (
	"crypto/sha1"
	"encoding/hex"
	"encoding/json"
	"fmt"
	"os"
	"path/filepath"
	"sort"
	"strconv"
	"strings"
	"sync"
	"time"
)

// Root is /verif (from VERIF_ROOT, set by check.sh).
func Root() string {
	if r := os.Getenv("VERIF_ROOT"); r != "" {
		return r
	}
	return "/verif"
}

// Repo is the tree under test.
func Repo() string {
	if r := os.Getenv("REPO"); r != "" {
		return r
	}
	return "/repo"
}

// Finding is one entry of known_findings.json.
type Finding struct {
	Property string            `json:"property"`
	ID       string            `json:"id"`
	Status   string            `json:"status"` // open | fixed
	Clause   string            `json:"clause"`
	Locus    map[string]string `json:"locus"`
	What     string            `json:"what"`
	Commit   string            `json:"commit,omitempty"`
	Witness  string            `json:"witness,omitempty"`
}

// Violation is one refuted oracle evaluation.
type Violation struct {
	Clause  string            `json:"clause"`
	Locus   map[string]string `json:"locus"`
	Detail  any               `json:"detail"`
	Replay  string            `json:"replay,omitempty"`
	Finding string            `json:"finding,omitempty"`
}

type Run struct {
	Prop   string
	Tier   string
	Seed   int64
	Level  string
	Rule   string
	Assume []string

	start    time.Time
	mu       sync.Mutex
	evals    int
	incon    int
	inconWhy map[string]int
	distinct map[string]struct{}
	samples  []any
	hist     map[string]int
	extra    map[string]any
	viol     []*Violation
	findings []Finding
	matched  map[string]int
	firstHit map[string]*Violation
	perCl    map[string]int
	classes  map[string]int
	exh      bool
	// MaxPerClause is the circuit breaker: stop recording replays for a clause after this many.
	MaxPerClause int
}

func NewRun(prop, level string) *Run {
	tier := os.Getenv("VERIF_TIER")
	if tier != "thorough" {
		tier = "quick"
	}
	seed := int64(1)
	if s := os.Getenv("VERIF_SEED"); s != "" {
		if v, err := strconv.ParseInt(s, 10, 64); err == nil {
			seed = v
		}
	}
	r := &Run{Prop: prop, Tier: tier, Seed: seed, Level: level, start: time.Now(),
		distinct: map[string]struct{}{}, hist: map[string]int{}, extra: map[string]any{},
		matched: map[string]int{}, perCl: map[string]int{}, inconWhy: map[string]int{},
		firstHit: map[string]*Violation{}, classes: map[string]int{}, MaxPerClause: 5}
	if v, err := strconv.Atoi(os.Getenv("VERIF_MAX_PER_CLAUSE")); err == nil && v > 0 {
		r.MaxPerClause = v
	}
	r.loadFindings()
	return r
}

func (r *Run) Thorough() bool { return r.Tier == "thorough" }

func (r *Run) loadFindings() {
	b, err := os.ReadFile(filepath.Join(Root(), "known_findings.json"))
	if err != nil {
		return
	}
	var all []Finding
	if err := json.Unmarshal(b, &all); err != nil {
		fmt.Fprintf(os.Stderr, "known_findings.json unreadable: %v\n", err)
		os.Exit(2)
	}
	for _, f := range all {
		if f.Property == r.Prop {
			r.findings = append(r.findings, f)
		}
	}
}

// OpenFindings returns the open findings of this property (used by generators to build
// trigger populations).
func (r *Run) OpenFindings() []Finding {
	var out []Finding
	for _, f := range r.findings {
		if f.Status == "open" {
			out = append(out, f)
		}
	}
	return out
}

// Eval counts one oracle evaluation; key identifies the distinct non-trivial case class
// ("" = trivial, not counted as distinct).
func (r *Run) Eval(key string) {
	r.mu.Lock()
	r.evals++
	if key != "" {
		r.distinct[key] = struct{}{}
	}
	r.mu.Unlock()
}

func (r *Run) EvalN(n int, key string) {
	r.mu.Lock()
	r.evals += n
	if key != "" {
		r.distinct[key] = struct{}{}
	}
	r.mu.Unlock()
}

// Matched returns how often a known finding has been matched so far in this run.
func (r *Run) Matched(id string) int {
	r.mu.Lock()
	defer r.mu.Unlock()
	return r.matched[id]
}

// NeedSample reports whether the evidence still has room for sample cases.
func (r *Run) NeedSample() bool {
	r.mu.Lock()
	defer r.mu.Unlock()
	return len(r.samples) < 6
}

func (r *Run) Sample(x any) {
	r.mu.Lock()
	if len(r.samples) < 6 {
		r.samples = append(r.samples, x)
	}
	r.mu.Unlock()
}

func (r *Run) Hist(k string) { r.HistN(k, 1) }
func (r *Run) HistN(k string, n int) {
	r.mu.Lock()
	r.hist[k] += n
	r.mu.Unlock()
}

func (r *Run) Set(k string, v any) {
	r.mu.Lock()
	r.extra[k] = v
	r.mu.Unlock()
}

func (r *Run) SetExhaustive(b bool) { r.exh = b }

func (r *Run) Inconclusive(why string) {
	r.mu.Lock()
	r.incon++
	r.inconWhy[why]++
	r.mu.Unlock()
}

// Tripped reports whether the circuit breaker for a clause has opened.
func (r *Run) Tripped(clause string) bool {
	r.mu.Lock()
	defer r.mu.Unlock()
	return r.perCl[clause] >= r.MaxPerClause
}

// Broken reports whether so many unlisted violations have accumulated that scheduling more
// work is pointless (the circuit breaker of DESIGN 2.1); the run then ends with what it has.
func (r *Run) Broken() bool {
	if os.Getenv("VERIF_NO_BREAKER") != "" {
		return false
	}
	if r.TotalUnlisted() >= 60 {
		r.mu.Lock()
		r.extra["circuit_breaker"] = "opened: remaining work items were skipped"
		r.mu.Unlock()
		return true
	}
	return false
}

// TotalUnlisted returns the number of unlisted violations so far.
func (r *Run) TotalUnlisted() int {
	r.mu.Lock()
	defer r.mu.Unlock()
	n := 0
	for _, c := range r.perCl {
		n += c
	}
	return n
}

func globMatch(pat, s string) bool {
	pre := strings.HasPrefix(pat, "*")
	suf := strings.HasSuffix(pat, "*") && len(pat) > 1
	core := strings.TrimSuffix(strings.TrimPrefix(pat, "*"), "*")
	switch {
	case pre && suf:
		return strings.Contains(s, core)
	case pre:
		return strings.HasSuffix(s, core)
	case suf:
		return strings.HasPrefix(s, core)
	}
	return pat == s
}

// locusMatch: every key of want must be present in have and match one of its |-separated
// alternatives (each may carry a leading and/or trailing *).
func locusMatch(want, have map[string]string) bool {
	for k, v := range want {
		hv, ok := have[k]
		if !ok {
			return false
		}
		okAny := false
		for _, alt := range strings.Split(v, "|") {
			if globMatch(alt, hv) {
				okAny = true
			}
		}
		if !okAny {
			return false
		}
	}
	return true
}

// Violate records a refuted evaluation. It returns the id of the open finding the
// violation is attributed to, or "" when it is unlisted (a real alarm).
func (r *Run) Violate(clause string, locus map[string]string, detail any) string {
	r.mu.Lock()
	defer r.mu.Unlock()
	for _, f := range r.findings {
		if f.Status != "open" {
			continue
		}
		if f.Clause == clause && locusMatch(f.Locus, locus) {
			r.matched[f.ID]++
			if _, ok := r.firstHit[f.ID]; !ok {
				r.firstHit[f.ID] = &Violation{Clause: clause, Locus: locus, Detail: detail, Finding: f.ID}
			}
			return f.ID
		}
	}
	r.perCl[clause]++
	if len(r.classes) < 20000 {
		lb, _ := json.Marshal(locus)
		r.classes[clause+" "+string(lb)]++
	}
	if r.perCl[clause] > r.MaxPerClause {
		return ""
	}
	v := &Violation{Clause: clause, Locus: locus, Detail: detail}
	v.Replay = r.writeReplay(v)
	r.viol = append(r.viol, v)
	return ""
}

func (r *Run) writeReplay(v *Violation) string {
	b, _ := json.MarshalIndent(map[string]any{
		"property": r.Prop, "tier": r.Tier, "seed": r.Seed,
		"clause": v.Clause, "locus": v.Locus, "detail": v.Detail,
	}, "", " ")
	h := sha1.Sum(b)
	dir := filepath.Join(Root(), "replays")
	if d := os.Getenv("VERIF_EVIDENCE_DIR"); d != "" {
		dir = filepath.Join(d, "replays")
	}
	os.MkdirAll(dir, 0o755)
	p := filepath.Join(dir, r.Prop+"-"+hex.EncodeToString(h[:6])+".json")
	os.WriteFile(p, b, 0o644)
	return p
}

type evidence struct {
	PropertyID  string         `json:"property_id"`
	Tier        string         `json:"tier"`
	Seed        int64          `json:"seed"`
	Level       string         `json:"level"`
	Coverage    map[string]any `json:"coverage"`
	Assumptions []string       `json:"assumptions,omitempty"`
	WallS       float64        `json:"wall_s"`
	Violations  int            `json:"violations"`
}

// Finish writes the evidence file, prints the verdict lines and exits.
func (r *Run) Finish() {
	r.mu.Lock()
	if len(r.samples) == 0 && len(r.viol) > 0 {
		// nothing passed that could be sampled: show the first refuted case instead
		r.samples = []any{map[string]any{"violating_case": r.viol[0].Detail, "clause": r.viol[0].Clause}}
	}
	if r.samples == nil {
		r.samples = []any{}
	}
	cov := map[string]any{
		"evaluations":         r.evals,
		"distinct_nontrivial": len(r.distinct),
		"rule":                r.Rule,
		"samples":             r.samples,
		"inconclusive":        r.incon,
		"outcome_histogram":   r.hist,
	}
	if r.exh {
		cov["exhaustive"] = true
	}
	if len(r.inconWhy) > 0 {
		cov["inconclusive_reasons"] = r.inconWhy
	}
	for k, v := range r.extra {
		cov[k] = v
	}
	if len(r.matched) > 0 {
		cov["known_findings_matched"] = r.matched
	}
	unlisted := 0
	for _, c := range r.perCl {
		unlisted += c
	}
	if unlisted > 0 {
		cov["unlisted_violations_by_clause"] = r.perCl
		cov["unlisted_violation_classes"] = r.classes
	}
	ev := evidence{PropertyID: r.Prop, Tier: r.Tier, Seed: r.Seed, Level: r.Level, Coverage: cov,
		Assumptions: r.Assume, WallS: time.Since(r.start).Seconds(), Violations: unlisted}
	r.mu.Unlock()

	b, _ := json.MarshalIndent(ev, "", " ")
	evDir := filepath.Join(Root(), "evidence")
	if d := os.Getenv("VERIF_EVIDENCE_DIR"); d != "" {
		evDir = d // triage runs against a scratch copy of the repository keep their evidence apart
	}
	os.MkdirAll(evDir, 0o755)
	os.WriteFile(filepath.Join(evDir, r.Prop+".json"), b, 0o644)

	ids := make([]string, 0, len(r.matched))
	for id := range r.matched {
		ids = append(ids, id)
	}
	sort.Strings(ids)
	for _, id := range ids {
		for _, f := range r.findings {
			if f.ID == id {
				fmt.Printf("KNOWN-FINDING: property=%s %s [%s; %d occurrences this run]\n", r.Prop, f.What, f.ID, r.matched[id])
			}
		}
	}
	for why, n := range r.inconWhy {
		fmt.Printf("INCONCLUSIVE: property=%s %s (%d)\n", r.Prop, why, n)
	}
	fmt.Printf("%s tier=%s seed=%d evaluations=%d distinct=%d inconclusive=%d unlisted_violations=%d wall=%.1fs\n",
		r.Prop, r.Tier, r.Seed, r.evals, len(r.distinct), r.incon, unlisted, time.Since(r.start).Seconds())
	if unlisted > 0 {
		for _, v := range r.viol {
			fmt.Printf("VIOLATION property=%s replay=%s\n", r.Prop, v.Replay)
			lb, _ := json.Marshal(v.Locus)
			fmt.Printf("  clause=%q locus=%s\n", v.Clause, lb)
		}
		os.Exit(1)
	}
	if r.evals == 0 {
		fmt.Printf("NOTHING-OBSERVED property=%s\n", r.Prop)
		os.Exit(2)
	}
	os.Exit(0)
}

// Short returns s truncated for display in evidence.
func Short(s string, n int) string {
	if len(s) <= n {
		return s
	}
	return s[:n] + fmt.Sprintf("…(+%d)", len(s)-n)
}
