package core

import (
	"bufio"
	"bytes"
	"encoding/json"
	"fmt"
	"io"
	"os"
	"os/exec"
	"strconv"
	"strings"
	"sync"
	"syscall"
	"time"
)

// Child supervises one worker/driver process. Work items are sent one at a time; the child
// answers with a "pre" line before touching code under test, optional "sub"/"res" lines and a
// final "post" line. A child that dies or exceeds its CPU budget is killed and restarted.
type Child struct {
	Name      string
	Argv      []string
	Env       []string
	Dir       string
	CPUBudget time.Duration // per item (per sub-case if the child emits "sub" lines)
	Wall      time.Duration // inconclusive watchdog per item

	cmd    *exec.Cmd
	stdin  io.WriteCloser
	lines  chan []byte
	errbuf *tailBuf
	dead   chan struct{}

	Restarts int
	nextID   int
}

type tailBuf struct {
	mu sync.Mutex
	b  []byte
}

func (t *tailBuf) Write(p []byte) (int, error) {
	t.mu.Lock()
	t.b = append(t.b, p...)
	if len(t.b) > 1<<16 {
		t.b = t.b[len(t.b)-1<<15:]
	}
	t.mu.Unlock()
	return len(p), nil
}
func (t *tailBuf) String() string { t.mu.Lock(); defer t.mu.Unlock(); return string(t.b) }

// Line is one protocol line from a child.
type Line struct {
	T  string `json:"t"`
	ID int    `json:"id,omitempty"`
	I  int    `json:"i,omitempty"`
	// the full raw line for the caller to decode further
	Raw json.RawMessage `json:"-"`
}

// Result of one work item.
type Result struct {
	Outcome string // "post" | "fatal" | "cpu-budget" | "wall-watchdog"
	Post    json.RawMessage
	Res     []json.RawMessage // "res" lines in order
	LastSub int               // index of the last "sub" line seen (-1 if none)
	SubDone bool              // whether the last sub got its res
	Stderr  string
	CPU     time.Duration
}

func (c *Child) start() error {
	c.cmd = exec.Command(c.Argv[0], c.Argv[1:]...)
	c.cmd.Env = append(os.Environ(), c.Env...)
	c.cmd.Dir = c.Dir
	c.cmd.SysProcAttr = &syscall.SysProcAttr{Setpgid: true}
	var err error
	c.stdin, err = c.cmd.StdinPipe()
	if err != nil {
		return err
	}
	out, err := c.cmd.StdoutPipe()
	if err != nil {
		return err
	}
	c.errbuf = &tailBuf{}
	c.cmd.Stderr = c.errbuf
	if err := c.cmd.Start(); err != nil {
		return err
	}
	c.lines = make(chan []byte, 256)
	c.dead = make(chan struct{})
	go func(lines chan []byte, dead chan struct{}, cmd *exec.Cmd) {
		rd := bufio.NewReaderSize(out, 1<<20)
		for {
			b, err := rd.ReadBytes('\n')
			if len(b) > 0 && b[len(b)-1] == '\n' {
				lines <- b
			}
			if err != nil {
				break
			}
		}
		cmd.Wait()
		close(dead)
	}(c.lines, c.dead, c.cmd)
	return nil
}

func (c *Child) kill() {
	if c.cmd != nil && c.cmd.Process != nil {
		syscall.Kill(-c.cmd.Process.Pid, syscall.SIGKILL)
		c.cmd.Process.Kill()
		<-c.dead
	}
	c.cmd = nil
}

// Close terminates the child.
func (c *Child) Close() {
	if c.cmd != nil {
		c.stdin.Close()
		select {
		case <-c.dead:
		case <-time.After(2 * time.Second):
			c.kill()
		}
		c.cmd = nil
	}
}

func cpuOf(pid int) time.Duration {
	b, err := os.ReadFile("/proc/" + strconv.Itoa(pid) + "/stat")
	if err != nil {
		return 0
	}
	// fields after the ") " that ends comm
	i := bytes.LastIndexByte(b, ')')
	if i < 0 {
		return 0
	}
	f := strings.Fields(string(b[i+1:]))
	if len(f) < 14 {
		return 0
	}
	ut, _ := strconv.ParseInt(f[11], 10, 64)
	st, _ := strconv.ParseInt(f[12], 10, 64)
	return time.Duration(ut+st) * (time.Second / 100)
}

// Do sends one work item (any JSON-marshalable value; an "id" is added by wrapping) and
// collects its result.
func (c *Child) Do(item any) Result {
	res := Result{LastSub: -1, SubDone: true}
	if c.cmd == nil {
		if err := c.start(); err != nil {
			res.Outcome = "fatal"
			res.Stderr = "cannot start child: " + err.Error()
			return res
		}
	}
	c.nextID++
	b, err := json.Marshal(item)
	if err != nil {
		panic(err)
	}
	line := append([]byte(fmt.Sprintf(`{"id":%d,"item":`, c.nextID)), b...)
	line = append(line, '}', '\n')
	pid := c.cmd.Process.Pid
	cpu0 := cpuOf(pid)
	subCPU0 := cpu0
	go func(w io.Writer) { w.Write(line) }(c.stdin)
	budget := c.CPUBudget
	if budget == 0 {
		budget = 20 * time.Second
	}
	wall := c.Wall
	if wall == 0 {
		wall = 10 * time.Minute
	}
	deadline := time.NewTimer(wall)
	defer deadline.Stop()
	tick := time.NewTicker(100 * time.Millisecond)
	defer tick.Stop()
	for {
		select {
		case b := <-c.lines:
			var l Line
			if err := json.Unmarshal(b, &l); err != nil {
				continue // stray output
			}
			switch l.T {
			case "pre":
			case "sub":
				res.LastSub = l.I
				res.SubDone = false
				subCPU0 = cpuOf(pid)
			case "res":
				res.Res = append(res.Res, json.RawMessage(append([]byte(nil), b...)))
				res.SubDone = true
			case "post":
				res.Outcome = "post"
				res.Post = json.RawMessage(append([]byte(nil), b...))
				res.CPU = cpuOf(pid) - cpu0
				return res
			}
		case <-c.dead:
			// drain what is left
			for {
				select {
				case b := <-c.lines:
					var l Line
					if json.Unmarshal(b, &l) == nil {
						switch l.T {
						case "sub":
							res.LastSub = l.I
							res.SubDone = false
						case "res":
							res.Res = append(res.Res, json.RawMessage(append([]byte(nil), b...)))
							res.SubDone = true
						case "post":
							res.Outcome = "post"
							res.Post = json.RawMessage(append([]byte(nil), b...))
						}
					}
					continue
				default:
				}
				break
			}
			c.cmd = nil
			c.Restarts++
			if res.Outcome == "post" {
				return res
			}
			res.Outcome = "fatal"
			res.Stderr = c.errbuf.String()
			return res
		case <-tick.C:
			allowed := budget
			if res.LastSub < 0 && allowed < 60*time.Second {
				// before the first sub-case the child is still parsing the work item
				// (tens of MiB of JSON for large batches): that is harness time
				allowed = 60 * time.Second
			}
			if cpuOf(pid)-subCPU0 > allowed {
				res.CPU = cpuOf(pid) - cpu0
				// ask for a goroutine dump first (best effort), then kill
				syscall.Kill(pid, syscall.SIGQUIT)
				time.Sleep(150 * time.Millisecond)
				c.kill()
				c.Restarts++
				res.Outcome = "cpu-budget"
				res.Stderr = c.errbuf.String()
				return res
			}
		case <-deadline.C:
			c.kill()
			c.Restarts++
			res.Outcome = "wall-watchdog"
			return res
		}
	}
}

// FirstLine returns the first non-empty line of a fatal child's stderr that looks like the
// cause (fatal error:, panic:, ==ERROR: AddressSanitizer, WARNING: DATA RACE ...).
func FatalCause(stderr string) string {
	for _, ln := range strings.Split(stderr, "\n") {
		s := strings.TrimSpace(ln)
		if strings.HasPrefix(s, "fatal error:") || strings.HasPrefix(s, "panic:") ||
			strings.Contains(s, "ERROR: AddressSanitizer") || strings.HasPrefix(s, "runtime: out of memory") ||
			strings.HasPrefix(s, "SIGQUIT") || strings.Contains(s, "stack overflow") || strings.Contains(s, "checkptr") {
			return s
		}
	}
	s := strings.TrimSpace(stderr)
	if i := strings.IndexByte(s, '\n'); i >= 0 {
		s = s[:i]
	}
	if s == "" {
		s = "child exited without output"
	}
	return s
}

// Pool runs items over n children in parallel; handle is called (concurrently) with each
// item's index and result. mk creates a child.
func Pool(n int, mk func(i int) *Child, items int, item func(i int) any, handle func(i int, ch *Child, r Result)) {
	if n > items {
		n = items
	}
	if n < 1 {
		n = 1
	}
	var wg sync.WaitGroup
	next := make(chan int)
	for w := 0; w < n; w++ {
		wg.Add(1)
		go func(w int) {
			defer wg.Done()
			ch := mk(w)
			defer ch.Close()
			for i := range next {
				it := item(i)
				if it == nil {
					continue
				}
				r := ch.Do(it)
				handle(i, ch, r)
			}
		}(w)
	}
	for i := 0; i < items; i++ {
		next <- i
	}
	close(next)
	wg.Wait()
}

// MaxDeathsPerBatch bounds how often one batch restarts its worker.
var MaxDeathsPerBatch = 8

// RunBatch drives n sub-cases through one child. mk(from) builds the work item covering
// sub-cases [from, n); the worker must emit Sub(i)/Res(i, ...) with absolute indices.
// A sub-case that kills the child (or exhausts its CPU budget) is reported through onDead
// and the batch resumes after it.
func RunBatch(ch *Child, n int, mk func(from int) any, onRes func(i int, r json.RawMessage), onDead func(i int, outcome, stderr string)) {
	from := 0
	deaths := 0
	for from < n {
		if deaths >= MaxDeathsPerBatch && os.Getenv("VERIF_NO_BREAKER") == "" {
			// every death costs a CPU budget and a restart; a batch in which the worker keeps dying
			// is stopped (the remaining sub-cases stay without result = not executed)
			return
		}
		res := ch.Do(mk(from))
		for _, raw := range res.Res {
			var l struct {
				I int             `json:"i"`
				R json.RawMessage `json:"r"`
			}
			if json.Unmarshal(raw, &l) == nil {
				onRes(l.I, l.R)
			}
		}
		if res.Outcome == "post" {
			return
		}
		dead := res.LastSub
		if dead < from {
			// died before starting any sub-case: report the first one and move on
			dead = from
		}
		deaths++
		if res.SubDone && dead+1 <= n {
			// the last started sub-case completed; the child died between cases
			onDead(dead, res.Outcome+":between-cases", res.Stderr)
			from = dead + 1
			continue
		}
		onDead(dead, res.Outcome, res.Stderr)
		from = dead + 1
	}
}
