package core

import (
	"bufio"
	"encoding/json"
	"fmt"
	"os"
	"runtime"
	"runtime/debug"
	"strconv"
	"strings"
	"sync"
	"syscall"
)

// Emitter lets a handler stream sub-case markers and results.
type Emitter struct {
	w  *bufio.Writer
	mu sync.Mutex
}

func (e *Emitter) line(v any) {
	b, _ := json.Marshal(v)
	e.mu.Lock()
	e.w.Write(b)
	e.w.WriteByte('\n')
	e.w.Flush()
	e.mu.Unlock()
}

// Sub marks the start of sub-case i (flushed before the code under test runs).
func (e *Emitter) Sub(i int) { e.line(map[string]any{"t": "sub", "i": i}) }

// Res reports the result of sub-case i.
func (e *Emitter) Res(i int, v any) { e.line(map[string]any{"t": "res", "i": i, "r": v}) }

// Serve is the main loop of a worker: one JSON work item per line on stdin.
func Serve(handle func(item json.RawMessage, e *Emitter) any) {
	if s := os.Getenv("VERIF_AS_LIMIT_MB"); s != "" {
		if mb, err := strconv.ParseUint(s, 10, 64); err == nil && mb > 0 {
			lim := syscall.Rlimit{Cur: mb << 20, Max: mb << 20}
			syscall.Setrlimit(syscall.RLIMIT_AS, &lim)
		}
	}
	debug.SetTraceback("all")
	in := bufio.NewReaderSize(os.Stdin, 1<<20)
	e := &Emitter{w: bufio.NewWriterSize(os.Stdout, 1<<16)}
	for {
		b, err := in.ReadBytes('\n')
		if len(b) > 0 {
			var env struct {
				ID   int             `json:"id"`
				Item json.RawMessage `json:"item"`
			}
			if jerr := json.Unmarshal(b, &env); jerr != nil {
				fmt.Fprintf(os.Stderr, "worker: bad item: %v\n", jerr)
				os.Exit(3)
			}
			e.line(map[string]any{"t": "pre", "id": env.ID})
			var out any
			func() {
				defer func() {
					if p := recover(); p != nil {
						out = map[string]any{"harness_panic": fmt.Sprint(p), "stack": Stack(12)}
					}
				}()
				out = handle(env.Item, e)
			}()
			e.line(map[string]any{"t": "post", "id": env.ID, "r": out})
		}
		if err != nil {
			return
		}
	}
}

// Stack returns the innermost n frames (function file:line) of the current goroutine,
// skipping runtime and harness frames where possible.
func Stack(n int) []string {
	pc := make([]uintptr, 64)
	k := runtime.Callers(2, pc)
	fr := runtime.CallersFrames(pc[:k])
	var out []string
	for {
		f, more := fr.Next()
		if !strings.HasPrefix(f.Function, "runtime.") {
			out = append(out, fmt.Sprintf("%s %s:%d", f.Function, shortPath(f.File), f.Line))
		}
		if !more || len(out) >= n {
			break
		}
	}
	return out
}

func shortPath(p string) string {
	parts := strings.Split(p, "/")
	if len(parts) > 2 {
		parts = parts[len(parts)-2:]
	}
	return strings.Join(parts, "/")
}

// Guard runs f and converts a panic into an outcome string plus the panic site.
func Guard(f func()) (outcome string, site []string) {
	defer func() {
		if p := recover(); p != nil {
			if s, ok := p.(RunawaySentinel); ok {
				outcome = "runaway:" + string(s)
				return
			}
			outcome = "panic:" + fmt.Sprint(p)
			site = panicSite()
		}
	}()
	f()
	return "ok", nil
}

// RunawaySentinel is panicked by metering readers when a decoder keeps reading after the end.
type RunawaySentinel string

func panicSite() []string {
	pc := make([]uintptr, 64)
	k := runtime.Callers(3, pc)
	fr := runtime.CallersFrames(pc[:k])
	var out []string
	seenPanic := false
	for {
		f, more := fr.Next()
		if f.Function == "runtime.gopanic" || strings.HasPrefix(f.Function, "runtime.panic") || strings.HasPrefix(f.Function, "runtime.goPanic") {
			seenPanic = true
		} else if seenPanic && !strings.HasPrefix(f.Function, "runtime.") {
			out = append(out, fmt.Sprintf("%s %s:%d", f.Function, shortPath(f.File), f.Line))
		}
		if !more || len(out) >= 4 {
			break
		}
	}
	return out
}
