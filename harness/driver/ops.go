package driver

import (
	"bufio"
	"bytes"
	"os"
	"encoding/hex"
	"encoding/json"
	"errors"
	"fmt"
	"io"
	"reflect"
	"runtime"
	"sort"
	"strconv"
	"strings"

	"github.com/200sc/bebop"
	"github.com/200sc/bebop/iohelp"
	"verif/harness/core"
)

// TypeInfo is what a generated package's verif_registry.go registers per record type.
type TypeInfo struct {
	New           func() bebop.Record
	Make          func(*iohelp.ErrorReader) (bebop.Record, error)
	FromBytes     func([]byte) (bebop.Record, error)
	MustFromBytes func([]byte) bebop.Record
}

var types = map[string]TypeInfo{}
var consts = map[string]map[string]any{}

func Register(pkg, name string, ti TypeInfo) { types[pkg+"."+name] = ti }

// RegisterConst records a constant's value in a neutral form.
func RegisterConst(pkg, name string, v any) {
	if consts[pkg] == nil {
		consts[pkg] = map[string]any{}
	}
	consts[pkg][name] = v
}

// ConstInfo describes a generated constant/variable without interpreting it.
func ConstInfo(v any) map[string]any {
	rv := reflect.ValueOf(v)
	out := map[string]any{"gotype": rv.Type().String(), "kind": rv.Kind().String()}
	switch rv.Kind() {
	case reflect.Bool:
		out["v"] = fmt.Sprint(rv.Bool())
	case reflect.Int, reflect.Int8, reflect.Int16, reflect.Int32, reflect.Int64:
		out["v"] = fmt.Sprint(rv.Int())
	case reflect.Uint, reflect.Uint8, reflect.Uint16, reflect.Uint32, reflect.Uint64:
		out["v"] = fmt.Sprint(rv.Uint())
	case reflect.Float32, reflect.Float64:
		out["v"] = Read(rv)
	case reflect.String:
		out["v"] = hex.EncodeToString([]byte(rv.String()))
	}
	return out
}

type readerCfg struct {
	Chunks    []int  `json:"chunks"` // cyclic chunk sizes (0 = unlimited)
	ZeroReads bool   `json:"zero_reads"`
	EOFData   bool   `json:"eof_with_data"`
	FailAt    int    `json:"fail_at"` // -1: plain EOF at the end of data
	Err       string `json:"err"`
	// Kind selects a standard-library reader instead of the metering reader:
	// "bytes.Reader" (seekable), "bufio" (*bufio.Reader over the metering reader),
	// "bytes.Buffer", "file" (*os.File on a temporary file), "" = metering reader.
	Kind string `json:"kind"`
}

// mkReader builds the reader of the requested kind and a function reporting how many bytes
// of the data the consumer has taken from it.
func mkReader(data []byte, rc readerCfg) (io.Reader, *meterReader, func() int, func()) {
	mr := &meterReader{data: data, cfg: rc}
	switch rc.Kind {
	case "bytes.Reader":
		br := bytes.NewReader(data)
		return br, mr, func() int { return len(data) - br.Len() }, func() {}
	case "bytes.Buffer":
		bb := bytes.NewBuffer(append([]byte{}, data...))
		return bb, mr, func() int { return len(data) - bb.Len() }, func() {}
	case "bufio":
		bu := bufio.NewReaderSize(mr, 16)
		return bu, mr, func() int { return mr.pos - bu.Buffered() }, func() {}
	case "file":
		f, err := os.CreateTemp("", "verif-stream-*")
		if err != nil {
			return mr, mr, func() int { return mr.pos }, func() {}
		}
		f.Write(data)
		f.Seek(0, 0)
		return f, mr, func() int { p, _ := f.Seek(0, 1); return int(p) }, func() { f.Close(); os.Remove(f.Name()) }
	}
	return mr, mr, func() int { return mr.pos }, func() {}
}

type meterReader struct {
	data     []byte
	cfg      readerCfg
	pos      int
	reads    int
	afterEnd int
	ended    bool
	flip     bool
	ci       int
}

type timeoutErr struct{}

func (timeoutErr) Error() string   { return "verif: injected i/o timeout" }
func (timeoutErr) Timeout() bool   { return true }
func (timeoutErr) Temporary() bool { return true }

var errInjected = errors.New("verif: injected failure")

func mkErr(kind string) error {
	switch kind {
	case "", "eof":
		return io.EOF
	case "ueof":
		return io.ErrUnexpectedEOF
	case "timeout":
		return timeoutErr{}
	case "shortwrite":
		return io.ErrShortWrite
	}
	return errInjected
}

func (m *meterReader) Read(p []byte) (int, error) {
	m.reads++
	limit := len(m.data)
	failing := m.cfg.FailAt >= 0
	if failing && m.cfg.FailAt < limit {
		limit = m.cfg.FailAt
	}
	if m.pos >= limit {
		if m.ended {
			m.afterEnd++
			if m.afterEnd > 4096 {
				panic(core.RunawaySentinel("reads after the end of the stream"))
			}
		}
		m.ended = true
		if failing {
			return 0, mkErr(m.cfg.Err)
		}
		return 0, io.EOF
	}
	if len(p) == 0 {
		return 0, nil
	}
	if m.cfg.ZeroReads {
		m.flip = !m.flip
		if m.flip {
			return 0, nil
		}
	}
	n := limit - m.pos
	if n > len(p) {
		n = len(p)
	}
	if len(m.cfg.Chunks) > 0 {
		c := m.cfg.Chunks[m.ci%len(m.cfg.Chunks)]
		m.ci++
		if c > 0 && n > c {
			n = c
		}
	}
	copy(p, m.data[m.pos:m.pos+n])
	m.pos += n
	if m.pos >= limit && m.cfg.EOFData && !failing {
		m.ended = true
		return n, io.EOF
	}
	return n, nil
}

type meterWriter struct {
	buf    bytes.Buffer
	writes int
	failAt int // fail the k-th Write (1-based); 0 never
	err    string
	after  int // writes attempted after the failure
	once   bool // only the failAt-th write fails; later writes succeed again
}

func (w *meterWriter) Write(p []byte) (int, error) {
	w.writes++
	if w.failAt > 0 && w.writes >= w.failAt && !(w.once && w.writes > w.failAt) {
		if w.writes > w.failAt {
			w.after++
		}
		if w.err == "shortwrite" && len(p) > 1 && w.writes == w.failAt {
			w.buf.Write(p[:len(p)/2])
			return len(p) / 2, io.ErrShortWrite
		}
		return 0, mkErr(w.err)
	}
	return w.buf.Write(p)
}

// allocBytes returns the cumulative bytes allocated by the process. runtime.ReadMemStats
// flushes the per-P caches, so the difference around a call is exact (the cheaper
// runtime/metrics counter lags by whole spans and attributed earlier allocations to later
// calls; observed as phantom 300 KiB "allocations").
func allocBytes() uint64 {
	var ms runtime.MemStats
	runtime.ReadMemStats(&ms)
	return ms.TotalAlloc
}

type item struct {
	Op   string `json:"op"`
	Pkg  string `json:"pkg"`
	Type string `json:"type"`
	Val  any    `json:"val"`
	Hex  string `json:"hex"`
	How  string `json:"how"`
	// enc
	Prefills []string `json:"prefills"` // hex byte patterns ("" = random seeded)
	Pad      int      `json:"pad"`
	Exact    bool     `json:"exact"`
	// dec
	Reader readerCfg `json:"reader"`
	// batches
	From  int        `json:"from"`
	To    int        `json:"to"`
	Step  int        `json:"step"` // cuts: beyond the first/last 96 offsets only every Step-th one
	Cases []caseItem `json:"cases"`
	Err   string     `json:"err"`
	Seq   []string   `json:"seq"`
	NoVal bool       `json:"noval"`
}

type caseItem struct {
	Type   string    `json:"type"`
	Hex    string    `json:"hex"`
	How    string    `json:"how"`
	Reader readerCfg `json:"reader"`
	NoVal  bool      `json:"noval"`
}

type decResult struct {
	Outcome  string   `json:"o"`
	Site     []string `json:"site,omitempty"`
	Err      string   `json:"err,omitempty"`
	HasErr   bool     `json:"e"`
	Val      any      `json:"val,omitempty"`
	Pos      int      `json:"pos"`
	Reads    int      `json:"reads"`
	AfterEnd int      `json:"after_end"`
	Alloc    uint64   `json:"alloc"`
	Size     int      `json:"size"` // Size() of the decoded value (when decoding succeeded)
}

func exact(b []byte) []byte {
	x := make([]byte, len(b))
	copy(x, b)
	return x
}

func decodeOne(ti TypeInfo, data []byte, how string, rc readerCfg, noval bool) decResult {
	var res decResult
	var rec bebop.Record
	var err error
	buf := exact(data)
	rd, mr, posOf, cleanup := mkReader(buf, rc)
	defer cleanup()
	a0 := allocBytes()
	res.Outcome, res.Site = core.Guard(func() {
		switch how {
		case "unmarshal":
			rec = ti.New()
			err = rec.UnmarshalBebop(buf)
		case "must":
			rec = ti.New()
			m, ok := rec.(interface{ MustUnmarshalBebop([]byte) })
			if !ok {
				err = errors.New("verif: MustUnmarshalBebop not generated")
				return
			}
			m.MustUnmarshalBebop(buf)
		case "decode":
			rec = ti.New()
			err = rec.DecodeBebop(rd)
		case "make":
			rec, err = ti.Make(iohelp.NewErrorReader(rd))
		case "frombytes":
			rec, err = ti.FromBytes(buf)
		case "mustfrombytes":
			if ti.MustFromBytes == nil {
				err = errors.New("verif: MustMake...FromBytes not generated")
				return
			}
			rec = ti.MustFromBytes(buf)
		default:
			err = errors.New("verif: unknown decoder " + how)
		}
	})
	res.Alloc = allocBytes() - a0
	res.Pos, res.Reads, res.AfterEnd = posOf(), mr.reads, mr.afterEnd
	if res.Outcome != "ok" {
		return res
	}
	if err != nil {
		res.HasErr = true
		res.Err = err.Error()
		return res
	}
	if rec != nil && !noval {
		o, _ := core.Guard(func() {
			res.Val = Read(reflect.ValueOf(rec).Elem())
			res.Size = rec.Size()
		})
		if o != "ok" {
			res.Outcome = "readback-" + o
		}
	}
	return res
}

type encResult struct {
	FillErr   string       `json:"fill_err,omitempty"`
	Size      int          `json:"size"`
	SizeOut   string       `json:"size_o"`
	Marshal   string       `json:"marshal"`
	MarshalO  string       `json:"marshal_o"`
	To        []toResult   `json:"to"`
	Encode    string       `json:"encode"`
	EncodeO   string       `json:"encode_o"`
	EncodeErr string       `json:"encode_err,omitempty"`
	Writes    int          `json:"writes"`
	Sites     [][]string   `json:"sites,omitempty"`
}

type toResult struct {
	Prefill string `json:"prefill"`
	N       int    `json:"n"`
	Buf     string `json:"buf"`
	Outcome string `json:"o"`
}

func build(ti TypeInfo, val any) (bebop.Record, error) {
	rec := ti.New()
	if err := Fill(reflect.ValueOf(rec).Elem(), val); err != nil {
		return nil, err
	}
	return rec, nil
}

func opEnc(it item) any {
	ti, ok := types[it.Pkg+"."+it.Type]
	if !ok {
		return map[string]any{"harness_error": "unknown type " + it.Pkg + "." + it.Type}
	}
	var res encResult
	rec, err := build(ti, it.Val)
	if err != nil {
		res.FillErr = err.Error()
		return res
	}
	var site []string
	res.SizeOut, site = core.Guard(func() { res.Size = rec.Size() })
	res.Sites = append(res.Sites, site)
	if res.SizeOut != "ok" {
		return res
	}
	res.MarshalO, site = core.Guard(func() { res.Marshal = hex.EncodeToString(rec.MarshalBebop()) })
	res.Sites = append(res.Sites, site)
	for _, pf := range it.Prefills {
		pat, _ := hex.DecodeString(pf)
		n := res.Size + it.Pad
		buf := make([]byte, n)
		for i := range buf {
			if len(pat) > 0 {
				buf[i] = pat[i%len(pat)]
			}
		}
		tr := toResult{Prefill: pf}
		tr.Outcome, site = core.Guard(func() { tr.N = rec.MarshalBebopTo(buf) })
		res.Sites = append(res.Sites, site)
		tr.Buf = hex.EncodeToString(buf)
		res.To = append(res.To, tr)
	}
	mw := &meterWriter{}
	res.EncodeO, site = core.Guard(func() {
		if e := rec.EncodeBebop(mw); e != nil {
			res.EncodeErr = e.Error()
		}
	})
	res.Sites = append(res.Sites, site)
	res.Encode = hex.EncodeToString(mw.buf.Bytes())
	res.Writes = mw.writes
	return res
}

type wfRes struct {
	Outcome string   `json:"o"`
	Site    []string `json:"site,omitempty"`
	Err     string   `json:"err,omitempty"`
	HasErr  bool     `json:"e"`
	Written int      `json:"written"`
	Writes  int      `json:"writes"`
	After   int      `json:"after"`
	Alloc   uint64   `json:"alloc"`
}

// opWFaults: EncodeBebop against a writer failing at its j-th Write, for every j.
func opWFaults(it item, e *core.Emitter) any {
	ti, ok := types[it.Pkg+"."+it.Type]
	if !ok {
		return map[string]any{"harness_error": "unknown type"}
	}
	rec, err := build(ti, it.Val)
	if err != nil {
		return map[string]any{"fill_err": err.Error()}
	}
	// fault-free run to count the writes
	mw := &meterWriter{}
	var ferr error
	o, _ := core.Guard(func() { ferr = rec.EncodeBebop(mw) })
	total := mw.writes
	base := map[string]any{"total_writes": total, "clean_outcome": o, "clean_hex": hex.EncodeToString(mw.buf.Bytes())}
	if ferr != nil {
		base["clean_err"] = ferr.Error()
	}
	start := it.From
	if start < 1 {
		start = 1
	}
	for j := start; j <= total; j++ {
		e.Sub(j)
		w := &meterWriter{failAt: j, err: it.Err, once: it.How == "once"}
		var r wfRes
		a0 := allocBytes()
		r.Outcome, r.Site = core.Guard(func() {
			if er := rec.EncodeBebop(w); er != nil {
				r.HasErr = true
				r.Err = er.Error()
			}
		})
		r.Alloc = allocBytes() - a0
		r.Written, r.Writes, r.After = w.buf.Len(), w.writes, w.after
		e.Res(j, r)
	}
	return base
}

// opCuts: decode every strict prefix (or: fail at every byte offset) of one encoding.
// The result is compact: one letter per cut (e = returned an error, n = returned nil,
// p = panic, r = runaway, x = other) plus full records for everything that is not a plain
// error return or that allocated more than 16 KiB.
func opCuts(it item, e *core.Emitter) any {
	ti, ok := types[it.Pkg+"."+it.Type]
	if !ok {
		return map[string]any{"harness_error": "unknown type " + it.Pkg + "." + it.Type}
	}
	data, _ := hex.DecodeString(it.Hex)
	codes := make([]byte, 0, len(data))
	detail := map[string]decResult{}
	var maxAlloc uint64
	end := len(data)
	if it.To > 0 && it.To < end {
		end = it.To
	}
	for k := it.From; k < end; k++ {
		if it.Step > 1 && k >= 96 && k < len(data)-96 && k%it.Step != 0 {
			codes = append(codes, '-')
			continue
		}
		e.Sub(k)
		rc := it.Reader
		var r decResult
		if it.Err == "" || it.Err == "eof" {
			rc.FailAt = -1
			r = decodeOne(ti, data[:k], it.How, rc, true)
		} else {
			rc.FailAt = k
			rc.Err = it.Err
			r = decodeOne(ti, data, it.How, rc, true)
		}
		c := byte('x')
		switch {
		case r.Outcome == "ok" && r.HasErr:
			c = 'e'
		case r.Outcome == "ok":
			c = 'n'
		case strings.HasPrefix(r.Outcome, "panic"):
			c = 'p'
		case strings.HasPrefix(r.Outcome, "runaway"):
			c = 'r'
		}
		codes = append(codes, c)
		if r.Alloc > maxAlloc {
			maxAlloc = r.Alloc
		}
		if c != 'e' || r.Alloc > 16<<10 {
			detail[strconv.Itoa(k)] = r
		}
	}
	return map[string]any{"n": len(data), "from": it.From, "codes": string(codes), "detail": detail, "max_alloc": maxAlloc}
}

// opCases: a batch of independent decode cases.
func opCases(it item, e *core.Emitter) any {
	for i := it.From; i < len(it.Cases); i++ {
		c := it.Cases[i]
		ti, ok := types[it.Pkg+"."+c.Type]
		e.Sub(i)
		if !ok {
			e.Res(i, decResult{Outcome: "harness: unknown type " + c.Type})
			continue
		}
		data, _ := hex.DecodeString(c.Hex)
		rc := c.Reader
		if rc.Err == "" {
			rc.FailAt = -1
		}
		e.Res(i, decodeOne(ti, data, c.How, rc, c.NoVal))
	}
	return map[string]any{"n": len(it.Cases)}
}

// opStream: decode a sequence of records from one stream.
func opStream(it item) any {
	data, _ := hex.DecodeString(it.Hex)
	rc := it.Reader
	rc.FailAt = -1
	rd, mr, posOf, cleanup := mkReader(exact(data), rc)
	defer cleanup()
	type one struct {
		decResult
		PosAfter int `json:"pos_after"`
	}
	var out []one
	for _, tn := range it.Seq {
		ti, ok := types[it.Pkg+"."+tn]
		if !ok {
			return map[string]any{"harness_error": "unknown type " + tn}
		}
		var r one
		rec := ti.New()
		var err error
		a0 := allocBytes()
		r.Outcome, r.Site = core.Guard(func() { err = rec.DecodeBebop(rd) })
		r.Alloc = allocBytes() - a0
		r.PosAfter, r.Reads, r.AfterEnd = posOf(), mr.reads, mr.afterEnd
		if r.Outcome == "ok" {
			if err != nil {
				r.HasErr, r.Err = true, err.Error()
			} else {
				core.Guard(func() {
					r.Val = Read(reflect.ValueOf(rec).Elem())
					r.Size = rec.Size()
				})
			}
		}
		out = append(out, r)
		if r.Outcome != "ok" || r.HasErr {
			break
		}
	}
	// one more read must report the end of the stream without having been asked before
	return map[string]any{"records": out, "final_pos": posOf(), "len": len(data), "reads": mr.reads, "after_end": mr.afterEnd, "ended": mr.ended}
}

func opConsts(it item) any {
	c := consts[it.Pkg]
	names := make([]string, 0, len(c))
	for n := range c {
		names = append(names, n)
	}
	sort.Strings(names)
	return map[string]any{"consts": c, "names": names}
}

func opTypes() any {
	var names []string
	for n := range types {
		names = append(names, n)
	}
	sort.Strings(names)
	return map[string]any{"types": names}
}

// Main is the driver's entry point.
func Main() {
	core.Serve(func(raw json.RawMessage, e *core.Emitter) any {
		var it item
		it.Reader.FailAt = -1
		if err := json.Unmarshal(raw, &it); err != nil {
			return map[string]any{"harness_error": err.Error()}
		}
		switch it.Op {
		case "enc":
			return opEnc(it)
		case "dec":
			ti, ok := types[it.Pkg+"."+it.Type]
			if !ok {
				return map[string]any{"harness_error": "unknown type " + it.Pkg + "." + it.Type}
			}
			data, _ := hex.DecodeString(it.Hex)
			return decodeOne(ti, data, it.How, it.Reader, it.NoVal)
		case "cuts":
			return opCuts(it, e)
		case "cases":
			return opCases(it, e)
		case "wfaults":
			return opWFaults(it, e)
		case "stream":
			return opStream(it)
		case "consts":
			return opConsts(it)
		case "types":
			return opTypes()
		case "ping":
			return map[string]any{"pong": true}
		}
		return map[string]any{"harness_error": "unknown op " + it.Op}
	})
}
