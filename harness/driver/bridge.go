// Package driver is the runtime linked into the per-run codec driver together with the
// generated packages. It moves values between the harness's abstract (JSON) representation
// and the generated Go types by reflection and executes codec calls behind meters. It has no
// knowledge of the wire format and holds no expectations.
package driver

import (
	"encoding/hex"
	"fmt"
	"math"
	"reflect"
	"strconv"
	"strings"
	"time"
	"unsafe"
)

var timeType = reflect.TypeOf(time.Time{})

// settable returns an addressable, settable view of v even for unexported fields.
func settable(v reflect.Value) reflect.Value {
	if v.CanSet() {
		return v
	}
	if !v.CanAddr() {
		panic("driver: value not addressable")
	}
	return reflect.NewAt(v.Type(), unsafe.Pointer(v.UnsafeAddr())).Elem()
}

// Fill sets the Go value dst (addressable) from the abstract value a.
func Fill(dst reflect.Value, a any) error {
	dst = settable(dst)
	t := dst.Type()
	if t == timeType {
		s, ok := a.(string)
		if !ok {
			return fmt.Errorf("date: want string, got %T", a)
		}
		if s == "zero" {
			dst.Set(reflect.ValueOf(time.Time{}))
			return nil
		}
		parts := strings.Split(s, "@")
		ns, err := strconv.ParseInt(parts[0], 10, 64)
		if err != nil {
			return err
		}
		tm := time.Unix(0, ns).UTC()
		if len(parts) > 1 {
			off, _ := strconv.Atoi(parts[1])
			if off != 0 {
				tm = tm.In(time.FixedZone("verif", off))
			}
		}
		dst.Set(reflect.ValueOf(tm))
		return nil
	}
	switch t.Kind() {
	case reflect.Bool:
		b, ok := a.(bool)
		if !ok {
			return fmt.Errorf("bool: got %T", a)
		}
		dst.SetBool(b)
	case reflect.Int8, reflect.Int16, reflect.Int32, reflect.Int64, reflect.Int:
		s, ok := a.(string)
		if !ok {
			return fmt.Errorf("int: got %T", a)
		}
		v, err := strconv.ParseInt(s, 10, 64)
		if err != nil {
			return err
		}
		dst.SetInt(v)
	case reflect.Uint8, reflect.Uint16, reflect.Uint32, reflect.Uint64, reflect.Uint:
		s, ok := a.(string)
		if !ok {
			return fmt.Errorf("uint: got %T", a)
		}
		v, err := strconv.ParseUint(s, 10, 64)
		if err != nil {
			return err
		}
		dst.SetUint(v)
	case reflect.Float32:
		s, _ := a.(string)
		v, err := strconv.ParseUint(s, 16, 32)
		if err != nil {
			return err
		}
		// set through the bit pattern so that signalling NaNs survive
		*(*uint32)(unsafe.Pointer(dst.UnsafeAddr())) = uint32(v)
	case reflect.Float64:
		s, _ := a.(string)
		v, err := strconv.ParseUint(s, 16, 64)
		if err != nil {
			return err
		}
		*(*uint64)(unsafe.Pointer(dst.UnsafeAddr())) = v
	case reflect.String:
		s, _ := a.(string)
		b, err := hex.DecodeString(s)
		if err != nil {
			return err
		}
		dst.SetString(string(b))
	case reflect.Array: // guid
		s, _ := a.(string)
		b, err := hex.DecodeString(s)
		if err != nil || len(b) != t.Len() {
			return fmt.Errorf("guid: bad value %q", s)
		}
		for i := range b {
			dst.Index(i).SetUint(uint64(b[i]))
		}
	case reflect.Slice:
		if a == nil {
			dst.Set(reflect.Zero(t))
			return nil
		}
		if t.Elem().Kind() == reflect.Uint8 && t.Elem().PkgPath() == "" {
			s, ok := a.(string)
			if !ok {
				return fmt.Errorf("bytes: got %T", a)
			}
			b, err := hex.DecodeString(s)
			if err != nil {
				return err
			}
			if b == nil {
				b = []byte{}
			}
			dst.SetBytes(b)
			return nil
		}
		l, ok := a.([]any)
		if !ok {
			return fmt.Errorf("slice: got %T", a)
		}
		sl := reflect.MakeSlice(t, len(l), len(l))
		for i := range l {
			if err := Fill(sl.Index(i), l[i]); err != nil {
				return err
			}
		}
		dst.Set(sl)
	case reflect.Map:
		if a == nil {
			dst.Set(reflect.Zero(t))
			return nil
		}
		l, ok := a.([]any)
		if !ok {
			return fmt.Errorf("map: got %T", a)
		}
		m := reflect.MakeMapWithSize(t, len(l))
		for _, e := range l {
			kv, ok := e.([]any)
			if !ok || len(kv) != 2 {
				return fmt.Errorf("map entry: got %T", e)
			}
			k := reflect.New(t.Key()).Elem()
			if err := Fill(k, kv[0]); err != nil {
				return err
			}
			v := reflect.New(t.Elem()).Elem()
			if err := Fill(v, kv[1]); err != nil {
				return err
			}
			m.SetMapIndex(k, v)
		}
		dst.Set(m)
	case reflect.Ptr:
		if a == nil {
			dst.Set(reflect.Zero(t))
			return nil
		}
		o, ok := a.(map[string]any)
		if !ok {
			return fmt.Errorf("pointer: got %T", a)
		}
		p := reflect.New(t.Elem())
		if err := Fill(p.Elem(), o["p"]); err != nil {
			return err
		}
		dst.Set(p)
	case reflect.Struct:
		l, ok := a.([]any)
		if !ok {
			return fmt.Errorf("record %s: got %T", t, a)
		}
		if len(l) != t.NumField() {
			return fmt.Errorf("record %s: %d values for %d fields", t, len(l), t.NumField())
		}
		for i := range l {
			if err := Fill(dst.Field(i), l[i]); err != nil {
				return fmt.Errorf("%s.%s: %w", t, t.Field(i).Name, err)
			}
		}
	default:
		return fmt.Errorf("unsupported kind %s", t.Kind())
	}
	return nil
}

// clean returns an addressable view of v without the read-only flag reflect puts on values
// reached through unexported fields (readonly structs, private definitions).
func clean(v reflect.Value) reflect.Value {
	if v.CanAddr() {
		return reflect.NewAt(v.Type(), unsafe.Pointer(v.UnsafeAddr())).Elem()
	}
	if v.CanInterface() {
		nv := reflect.New(v.Type()).Elem()
		nv.Set(v)
		return nv
	}
	return v
}

// Read converts a Go value into the abstract representation.
func Read(v reflect.Value) any {
	v = clean(v)
	t := v.Type()
	if t == timeType {
		tm := v.Interface().(time.Time)
		if tm.IsZero() {
			return "zero"
		}
		_, off := tm.Zone()
		return fmt.Sprintf("%d@%d@%s", tm.UnixNano(), off, tm.Location().String())
	}
	switch t.Kind() {
	case reflect.Bool:
		return v.Bool()
	case reflect.Int8, reflect.Int16, reflect.Int32, reflect.Int64, reflect.Int:
		return strconv.FormatInt(v.Int(), 10)
	case reflect.Uint8, reflect.Uint16, reflect.Uint32, reflect.Uint64, reflect.Uint:
		return strconv.FormatUint(v.Uint(), 10)
	case reflect.Float32:
		return strconv.FormatUint(uint64(readFloat32Bits(v)), 16)
	case reflect.Float64:
		return strconv.FormatUint(math.Float64bits(v.Float()), 16)
	case reflect.String:
		return hex.EncodeToString([]byte(v.String()))
	case reflect.Array:
		b := make([]byte, t.Len())
		for i := range b {
			b[i] = byte(v.Index(i).Uint())
		}
		return hex.EncodeToString(b)
	case reflect.Slice:
		if v.IsNil() {
			return nil
		}
		if t.Elem().Kind() == reflect.Uint8 && t.Elem().PkgPath() == "" {
			b := make([]byte, v.Len())
			for i := range b {
				b[i] = byte(v.Index(i).Uint())
			}
			return hex.EncodeToString(b)
		}
		out := make([]any, v.Len())
		for i := range out {
			out[i] = Read(v.Index(i))
		}
		return out
	case reflect.Map:
		if v.IsNil() {
			return nil
		}
		out := make([]any, 0, v.Len())
		it := v.MapRange()
		for it.Next() {
			out = append(out, []any{Read(it.Key()), Read(it.Value())})
		}
		return out
	case reflect.Ptr:
		if v.IsNil() {
			return nil
		}
		return map[string]any{"p": Read(v.Elem())}
	case reflect.Struct:
		out := make([]any, t.NumField())
		for i := range out {
			out[i] = Read(v.Field(i))
		}
		return out
	}
	return fmt.Sprintf("?%s", t.Kind())
}

// float32 NaN payloads: reflect's Float() widens float32 to float64, which quiets
// signalling NaNs; read the raw bits instead when the value is addressable.
func readFloat32Bits(v reflect.Value) uint32 {
	if v.CanAddr() {
		return *(*uint32)(unsafe.Pointer(v.UnsafeAddr()))
	}
	return math.Float32bits(float32(v.Float()))
}
