#!/bin/bash
# Entry point for every registered check: pins the environment, rebuilds the controller,
# and dispatches. Workers/drivers that link /repo are rebuilt by the controller on each run.
set -u
cd "$(dirname "$0")"
export GOFLAGS=-mod=mod GOPROXY=off GOSUMDB=off GOTOOLCHAIN=local CGO_ENABLED=1
export VERIF_ROOT="$PWD"
export REPO="${REPO:-/repo}"
mkdir -p bin evidence replays .work
(cd harness && go build -o ../bin/vcheck ./cmd/vcheck) || { echo "BUILD-FAILED: controller" >&2; exit 2; }
exec ./bin/vcheck "$@"
