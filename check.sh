#!/bin/bash
# Entry point for every registered check: pins the environment, rebuilds the controller,
# and dispatches. Workers/drivers that link /repo are rebuilt by the controller on each run.
set -u
cd "$(dirname "$0")"
export GOFLAGS=-mod=mod GOPROXY=off GOSUMDB=off GOTOOLCHAIN=local CGO_ENABLED=1
export VERIF_ROOT="$PWD"
export REPO="${REPO:-/repo}"
mkdir -p bin evidence replays .work
# The checks compile thousands of generated packages; every distinct /repo state adds a few
# GiB to Go's build cache. Keep the disk bounded: start from a cold cache beyond 30 GiB
# (costs ~20 s of rebuilding on the next run, nothing else).
# Cleaning the cache under another check that is compiling breaks that check's build, so every run
# holds a shared lock for its whole duration (fd 9 is inherited by the controller) and the cache is
# only cleaned by a run that gets the lock exclusively, i.e. when no other check is running.
cache_dir="$(go env GOCACHE 2>/dev/null)"
exec 9>"${cache_dir:-.work/cache}.verif.lock" 2>/dev/null || exec 9>.work/.cache.lock
if [ -n "$cache_dir" ] && [ -d "$cache_dir" ]; then
  cache_mb=$(timeout 20 du -sm "$cache_dir" 2>/dev/null | cut -f1)
  if [ -n "${cache_mb:-}" ] && [ "$cache_mb" -gt 30720 ] && flock -x -n 9; then go clean -cache >/dev/null 2>&1; fi
fi
flock -s 9
# stale scratch directories of killed runs
find .work -mindepth 1 -maxdepth 1 -type d -mmin +120 -exec rm -rf {} + 2>/dev/null
(cd harness && go build -o ../bin/vcheck ./cmd/vcheck) || { echo "BUILD-FAILED: controller" >&2; exit 2; }
exec ./bin/vcheck "$@"
